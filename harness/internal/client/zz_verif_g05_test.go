package client

// G05 -- runtime clients and per-client upstream configurations.
//
// Direction A (TestZZVerifG05Replay): walks the tours that checks/g05.py
// computed from the labelled state graphs TLC printed for
// specs/RuntimeClients.tla through a real client.Storage (fake DHCP server,
// ARP database and hosts container, as the package's own tests use).  Every
// tour starts at the initial state with a fresh Storage.  After EVERY step the
// reply is compared with the spec's, and the real object is observed:
//
//   - abstraction function: the runtime index (one datum per source and
//     address; read-only access to the unexported fields);
//   - RangeRuntime: the reported (source, name, WHOIS) of every address;
//   - Find(address) for every address; FindByName for every client name.
//
// Direction B (TestZZVerifG05Trace): a seeded random driver over a larger
// universe records histories for specs/TraceRuntimeClients.tla.
//
// Exported API only: NewStorage, Start, Shutdown, UpdateAddress, ReloadARP,
// UpdateDHCP, RangeRuntime, ClientRuntime, Find, FindByName, RangeByName,
// Add, Update, RemoveByName, UpdateCommonUpstreamConfig, CustomUpstreamConfig.
// Hosts-file updates travel through HostsContainer.Upd() and the goroutine
// Start launches; the periodic ARP refresh through the real ticker.

import (
	"context"
	"encoding/json"
	"fmt"
	"math/rand"
	"net"
	"net/netip"
	"os"
	"reflect"
	"slices"
	"sort"
	"strings"
	"sync"
	"testing"
	"time"
	"unsafe"

	"github.com/AdguardTeam/AdGuardHome/internal/arpdb"
	"github.com/AdguardTeam/AdGuardHome/internal/dhcpsvc"
	"github.com/AdguardTeam/AdGuardHome/internal/whois"
	"github.com/AdguardTeam/dnsproxy/proxy"
	"github.com/AdguardTeam/golibs/errors"
	"github.com/AdguardTeam/golibs/hostsfile"
	"github.com/AdguardTeam/golibs/logutil/slogutil"
)

const zzG05None = "-"

// ------------------------------------------------------------ fake sources

// zzG05DHCP is the DHCP server: a lease table.
type zzG05DHCP struct {
	mu     sync.Mutex
	leases map[netip.Addr]*dhcpsvc.Lease
}

func (d *zzG05DHCP) Leases() (leases []*dhcpsvc.Lease) {
	d.mu.Lock()
	defer d.mu.Unlock()

	for _, l := range d.leases {
		leases = append(leases, l.Clone())
	}
	sort.Slice(leases, func(i, j int) bool { return leases[i].IP.Less(leases[j].IP) })

	return leases
}

func (d *zzG05DHCP) HostByIP(ip netip.Addr) (host string) {
	d.mu.Lock()
	defer d.mu.Unlock()

	if l, ok := d.leases[ip]; ok {
		return l.Hostname
	}

	return ""
}

func (d *zzG05DHCP) MACByIP(ip netip.Addr) (mac net.HardwareAddr) {
	d.mu.Lock()
	defer d.mu.Unlock()

	if l, ok := d.leases[ip]; ok {
		return slices.Clone(l.HWAddr)
	}

	return nil
}

func (d *zzG05DHCP) set(ip netip.Addr, mac net.HardwareAddr, host string) {
	d.mu.Lock()
	defer d.mu.Unlock()

	if mac == nil {
		delete(d.leases, ip)

		return
	}
	d.leases[ip] = &dhcpsvc.Lease{IP: ip, HWAddr: mac, Hostname: host, Expiry: time.Now().Add(time.Hour)}
}

// zzG05ARP is the ARP database.  calls counts the Neighbors calls (each one
// belongs to one refresh of the Storage, made under its lock).
type zzG05ARP struct {
	mu    sync.Mutex
	cond  *sync.Cond
	ns    []arpdb.Neighbor
	fail  bool
	calls int
	refr  int
}

func zzG05NewARP() (a *zzG05ARP) {
	a = &zzG05ARP{}
	a.cond = sync.NewCond(&a.mu)

	return a
}

func (a *zzG05ARP) Refresh() (err error) {
	a.mu.Lock()
	defer a.mu.Unlock()

	a.refr++
	if a.fail {
		a.fail = false
		a.cond.Broadcast()

		return errors.Error("zz arp refresh failed")
	}

	return nil
}

func (a *zzG05ARP) Neighbors() (ns []arpdb.Neighbor) {
	a.mu.Lock()
	defer a.mu.Unlock()

	a.calls++
	a.cond.Broadcast()

	return slices.Clone(a.ns)
}

// zzG05Hosts is the hosts container.  The Storage's goroutine evaluates Upd()
// anew before every receive, i.e. after it has completely processed the
// previous update: send returns when that has happened.
type zzG05Hosts struct {
	mu    sync.Mutex
	cond  *sync.Cond
	ch    chan *hostsfile.DefaultStorage
	calls int
}

func zzG05NewHosts() (h *zzG05Hosts) {
	h = &zzG05Hosts{ch: make(chan *hostsfile.DefaultStorage)}
	h.cond = sync.NewCond(&h.mu)

	return h
}

func (h *zzG05Hosts) Upd() (updates <-chan *hostsfile.DefaultStorage) {
	h.mu.Lock()
	defer h.mu.Unlock()

	h.calls++
	h.cond.Broadcast()

	return h.ch
}

func (h *zzG05Hosts) send(tb testing.TB, s *hostsfile.DefaultStorage) {
	h.mu.Lock()
	n := h.calls
	h.mu.Unlock()

	select {
	case h.ch <- s:
	case <-time.After(20 * time.Second):
		tb.Fatalf("hosts update not received by the storage")
	}

	done := make(chan struct{})
	go func() {
		h.mu.Lock()
		for h.calls == n {
			h.cond.Wait()
		}
		h.mu.Unlock()
		close(done)
	}()
	select {
	case <-done:
	case <-time.After(20 * time.Second):
		tb.Fatalf("hosts update not processed by the storage")
	}
}

// zzG05Clock never returns the same instant twice (as the package's own
// upstream test does it).
type zzG05Clock struct {
	mu  sync.Mutex
	now time.Time
}

func (c *zzG05Clock) Now() (now time.Time) {
	c.mu.Lock()
	defer c.mu.Unlock()

	c.now = c.now.Add(time.Second)

	return c.now
}

// ------------------------------------------------------- concretisation

// zzG05Variant chooses the concrete spelling of one tour / history.
type zzG05Variant struct {
	V6     bool   `json:"v6"`
	MacLen int    `json:"maclen"`
	Scheme string `json:"scheme"` // "", "tcp://", "tls://"
	Salt   int    `json:"salt"`
	W      int    `json:"w"` // width of abstract addresses: 4 or 8
}

type zzG05Conc struct{ v zzG05Variant }

func (c zzG05Conc) hostByte(a int) (b byte) {
	if c.v.W == 8 {
		return byte(a)
	}
	// The abstract address is the top four bits; the low four are a fixed
	// function of the address and the salt.
	return byte(a<<4 | (a*7+c.v.Salt)&0xf)
}

func (c zzG05Conc) addr(a int) (ip netip.Addr) {
	b := c.hostByte(a)
	if c.v.V6 {
		return netip.AddrFrom16([16]byte{0xfd, 0, 0, 0, 0, 0, 0, 0, 0, 0, 0, 0, 0, 7, 0, b})
	}

	return netip.AddrFrom4([4]byte{192, 168, 7, b})
}

// abs is the inverse of addr; ok is false for a foreign address.
func (c zzG05Conc) abs(ip netip.Addr, known []int) (a int, ok bool) {
	for _, k := range known {
		if c.addr(k) == ip {
			return k, true
		}
	}

	return 0, false
}

func (c zzG05Conc) prefix(base, l int) (p netip.Prefix) {
	shift := 8 - c.v.W
	b := byte(base << shift)
	if c.v.V6 {
		return netip.PrefixFrom(netip.AddrFrom16([16]byte{0xfd, 0, 0, 0, 0, 0, 0, 0, 0, 0, 0, 0, 0, 7, 0, b}), 120+l)
	}

	return netip.PrefixFrom(netip.AddrFrom4([4]byte{192, 168, 7, b}), 24+l)
}

func (c zzG05Conc) mac(n int) (m net.HardwareAddr) {
	l := c.v.MacLen
	if l != 8 && l != 20 {
		l = 6
	}
	m = make(net.HardwareAddr, l)
	m[0] = 0x02
	for i := 1; i < l-1; i++ {
		m[i] = byte(0x40 + i + c.v.Salt%16)
	}
	m[l-1] = byte(n)

	return m
}

func (c zzG05Conc) cid(n int) (s string) { return fmt.Sprintf("cid-%d-%d", n, c.v.Salt%7) }

func (c zzG05Conc) name(n string) (s string) { return fmt.Sprintf("Client %s/%d", n, c.v.Salt%5) }

// host maps a host-name token to a host name; "" stays "".
func (c zzG05Conc) host(tok string) (h string) {
	if tok == "" {
		return ""
	}

	return tok + ".g05.example"
}

func (c zzG05Conc) hostAbs(h string) (tok string) { return strings.TrimSuffix(h, ".g05.example") }

func (c zzG05Conc) whois(tok string) (wi *whois.Info) {
	if tok == zzG05None {
		return nil
	}

	return &whois.Info{Orgname: tok}
}

func zzG05WhoisAbs(wi *whois.Info) (tok string) {
	if wi == nil {
		return zzG05None
	}

	return wi.Orgname
}

// zzG05ID is an identifier of ClientsCore.tla: ["ip", 5, 0] etc.
type zzG05ID struct {
	K    string
	A, B int
}

func (id *zzG05ID) UnmarshalJSON(b []byte) (err error) {
	var raw []json.RawMessage
	if err = json.Unmarshal(b, &raw); err != nil || len(raw) != 3 {
		return fmt.Errorf("bad id %s", b)
	}
	if err = json.Unmarshal(raw[0], &id.K); err != nil {
		return err
	}
	if err = json.Unmarshal(raw[1], &id.A); err != nil {
		return err
	}

	return json.Unmarshal(raw[2], &id.B)
}

func (id zzG05ID) MarshalJSON() (b []byte, err error) { return json.Marshal([]any{id.K, id.A, id.B}) }

func (c zzG05Conc) idString(id zzG05ID) (s string) {
	switch id.K {
	case "cid":
		return c.cid(id.A)
	case "ip":
		return c.addr(id.A).String()
	case "net":
		return c.prefix(id.A, id.B).String()
	case "mac":
		return c.mac(id.A).String()
	default:
		panic("bad id kind " + id.K)
	}
}

// zzG05Line is one line of a client's upstreams: t = up / comment / empty.
type zzG05Line struct {
	T string `json:"t"`
	V string `json:"v"`
}

type zzG05Ups struct {
	Ups []zzG05Line `json:"ups"`
	Ce  bool        `json:"ce"`
}

var zzG05UpAddrs = map[string]string{"u1": "192.0.2.1", "u2": "192.0.2.2", "u3": "192.0.2.3"}

func (c zzG05Conc) upstreams(ls []zzG05Line) (ups []string) {
	ups = []string{}
	for i, l := range ls {
		switch l.T {
		case "up":
			ups = append(ups, c.v.Scheme+zzG05UpAddrs[l.V])
		case "comment":
			ups = append(ups, fmt.Sprintf("# comment %d", i))
		default:
			ups = append(ups, "")
		}
	}

	return ups
}

func zzG05UpAbs(addr string) (tok string) {
	for t, a := range zzG05UpAddrs {
		if strings.Contains(addr, a+":") || strings.HasSuffix(addr, a) {
			return t
		}
	}

	return "?" + addr
}

// ------------------------------------------------------------------- rig

type zzG05Rig struct {
	tb      testing.TB
	ctx     context.Context
	conc    zzG05Conc
	st      *Storage
	dhcp    *zzG05DHCP
	arp     *zzG05ARP
	hosts   *zzG05Hosts
	nCommon int

	addrs []int // every abstract address this history may touch

	// identity of handed-out configurations
	seen    map[*proxy.CustomUpstreamConfig]int // -> serial number
	keep    []*proxy.CustomUpstreamConfig
	lastObj map[UID]*proxy.CustomUpstreamConfig
	pre     map[UID]bool // existed at the latest common-config change
}

func zzG05NewRig(tb testing.TB, v zzG05Variant, dhcpOn bool, addrs []int, arpPeriod time.Duration) (r *zzG05Rig) {
	r = &zzG05Rig{
		tb: tb, ctx: context.Background(), conc: zzG05Conc{v: v},
		dhcp: &zzG05DHCP{leases: map[netip.Addr]*dhcpsvc.Lease{}}, arp: zzG05NewARP(), hosts: zzG05NewHosts(),
		addrs: addrs, seen: map[*proxy.CustomUpstreamConfig]int{}, lastObj: map[UID]*proxy.CustomUpstreamConfig{},
		pre: map[UID]bool{},
	}
	var err error
	r.st, err = NewStorage(r.ctx, &StorageConfig{
		Logger:                 slogutil.NewDiscardLogger(),
		Clock:                  &zzG05Clock{now: time.Unix(1700000000, 0)},
		DHCP:                   r.dhcp,
		EtcHosts:               r.hosts,
		ARPDB:                  r.arp,
		ARPClientsUpdatePeriod: arpPeriod,
		RuntimeSourceDHCP:      dhcpOn,
	})
	if err != nil {
		tb.Fatalf("NewStorage: %v", err)
	}
	if err = r.st.Start(r.ctx); err != nil {
		tb.Fatalf("Start: %v", err)
	}
	// The hosts goroutine is up when it has asked for the channel once.
	r.hosts.mu.Lock()
	for r.hosts.calls == 0 {
		r.hosts.cond.Wait()
	}
	r.hosts.mu.Unlock()
	// As package home / dnsforward do before the first query is served.
	r.common()

	return r
}

func (r *zzG05Rig) close() { _ = r.st.Shutdown(r.ctx) }

func (r *zzG05Rig) common() {
	r.nCommon++
	r.st.UpdateCommonUpstreamConfig(&CommonUpstreamConfig{
		UpstreamTimeout:         time.Duration(r.nCommon) * time.Second,
		EDNSClientSubnetEnabled: r.nCommon%2 == 0,
	})
	r.pre = map[UID]bool{}
	r.st.RangeByName(func(p *Persistent) (cont bool) {
		r.pre[p.UID] = true

		return true
	})
}

func (r *zzG05Rig) persistent(name string, ids []zzG05ID, u zzG05Ups) (p *Persistent) {
	p = &Persistent{Name: r.conc.name(name), UID: MustNewUID(), Upstreams: r.conc.upstreams(u.Ups),
		UpstreamsCacheEnabled: u.Ce}
	if u.Ce {
		p.UpstreamsCacheSize = 4096
	}
	strs := make([]string, 0, len(ids))
	for _, id := range ids {
		strs = append(strs, r.conc.idString(id))
	}
	if err := p.SetIDs(strs); err != nil {
		r.tb.Fatalf("SetIDs(%v): %v", strs, err)
	}

	return p
}

func (r *zzG05Rig) arpSet(tab map[int]string) {
	var ns []arpdb.Neighbor
	keys := make([]int, 0, len(tab))
	for a := range tab {
		keys = append(keys, a)
	}
	sort.Ints(keys)
	for _, a := range keys {
		ns = append(ns, arpdb.Neighbor{Name: r.conc.host(tab[a]), IP: r.conc.addr(a), MAC: r.conc.mac(200 + a%50)})
	}
	r.arp.mu.Lock()
	r.arp.ns = ns
	r.arp.mu.Unlock()
}

// arpTick waits for a periodic refresh that started after now, and for its
// end.  With failing set, that refresh's Refresh call returns an error.  ok is
// false if the ticker (period: milliseconds) did not refresh within 10 s.
func (r *zzG05Rig) arpTick(failing bool) (ok bool) {
	r.arp.mu.Lock()
	if failing {
		r.arp.fail = true
	}
	n, m := r.arp.calls, r.arp.refr
	timedOut := false
	tm := time.AfterFunc(10*time.Second, func() {
		r.arp.mu.Lock()
		timedOut = true
		r.arp.cond.Broadcast()
		r.arp.mu.Unlock()
	})
	for (failing && r.arp.refr == m || !failing && r.arp.calls == n) && !timedOut {
		r.arp.cond.Wait()
	}
	ok = failing && r.arp.refr != m || !failing && r.arp.calls != n
	r.arp.fail = false
	r.arp.mu.Unlock()
	tm.Stop()
	_ = r.st.Size() // the refresh holds the storage's lock until it is done

	return ok
}

func (r *zzG05Rig) hostsSend(tab map[int][]string) {
	hs, err := hostsfile.NewDefaultStorage()
	if err != nil {
		r.tb.Fatalf("hostsfile: %v", err)
	}
	keys := make([]int, 0, len(tab))
	for a := range tab {
		keys = append(keys, a)
	}
	sort.Ints(keys)
	for _, a := range keys {
		names := make([]string, 0, len(tab[a]))
		for _, n := range tab[a] {
			names = append(names, r.conc.host(n))
		}
		hs.Add(&hostsfile.Record{Addr: r.conc.addr(a), Names: names, Source: "zz"})
	}
	r.hosts.send(r.tb, hs)
}

// ------------------------------------------------------------ observation

type zzG05View [3]string // source, name, whois

var zzG05NoView = zzG05View{"none", "", zzG05None}

func zzG05SrcName(s Source) (n string) {
	switch s {
	case SourceWHOIS:
		return "whois"
	case SourceARP:
		return "arp"
	case SourceRDNS:
		return "rdns"
	case SourceDHCP:
		return "dhcp"
	case SourceHostsFile:
		return "hosts"
	case 0:
		return "none"
	default:
		return fmt.Sprintf("source-%d", s)
	}
}

func (r *zzG05Rig) view(rc *Runtime) (v zzG05View) {
	if rc == nil {
		return zzG05NoView
	}
	src, host := rc.Info()

	return zzG05View{zzG05SrcName(src), r.conc.hostAbs(host), zzG05WhoisAbs(rc.WHOIS())}
}

func zzG05Datum(c zzG05Conc, s []string, bad *[]string, what string) (d string) {
	switch {
	case s == nil:
		return zzG05None
	case len(s) == 0:
		return ""
	case len(s) > 1:
		*bad = append(*bad, fmt.Sprintf("%s holds %d names", what, len(s)))
	}

	return c.hostAbs(s[0])
}

// project is the abstraction function of the runtime index: address ->
// [whois, arp, rdns, dhcp, hosts].  Read-only.
func (r *zzG05Rig) project() (rows map[int][5]string, bad []string) {
	rows = map[int][5]string{}
	r.st.mu.Lock()
	defer r.st.mu.Unlock()

	for ip, rc := range r.st.runtimeIndex.index {
		a, ok := r.conc.abs(ip, r.addrs)
		if !ok {
			bad = append(bad, "runtime client for a foreign address "+ip.String())

			continue
		}
		if rc.Addr() != ip {
			bad = append(bad, fmt.Sprintf("index[%s] holds the client of %s", ip, rc.Addr()))
		}
		what := "address " + ip.String()
		row := [5]string{
			zzG05WhoisAbs(rc.whois),
			zzG05Datum(r.conc, rc.arp, &bad, what+" arp"),
			zzG05Datum(r.conc, rc.rdns, &bad, what+" rdns"),
			zzG05Datum(r.conc, rc.dhcp, &bad, what+" dhcp"),
			zzG05Datum(r.conc, rc.hostsFile, &bad, what+" hosts"),
		}
		if row == [5]string{zzG05None, zzG05None, zzG05None, zzG05None, zzG05None} {
			bad = append(bad, "an entry without any information is kept for "+ip.String())
		}
		rows[a] = row
	}

	return rows, bad
}

// rangeViews is RangeRuntime through the exported API.
func (r *zzG05Rig) rangeViews() (views map[int]zzG05View, bad []string) {
	views = map[int]zzG05View{}
	r.st.RangeRuntime(func(rc *Runtime) (cont bool) {
		a, ok := r.conc.abs(rc.Addr(), r.addrs)
		if !ok {
			bad = append(bad, "RangeRuntime: foreign address "+rc.Addr().String())

			return true
		}
		if _, dup := views[a]; dup {
			bad = append(bad, "RangeRuntime: address twice "+rc.Addr().String())
		}
		views[a] = r.view(rc)
		if views[a] == zzG05NoView {
			bad = append(bad, "RangeRuntime lists "+rc.Addr().String()+", about which no source knows anything")
		}

		return true
	})

	return views, bad
}

// zzG05Conf describes a handed-out configuration.
type zzG05Conf struct {
	Nil bool     `json:"nil"`
	Ups []string `json:"ups"`
	Ce  bool     `json:"ce"`
	Obj int      `json:"obj"` // serial number of the object (0 = nil)
	New bool     `json:"new"` // never handed out before
}

func (r *zzG05Rig) describe(conf *proxy.CustomUpstreamConfig) (d zzG05Conf) {
	if conf == nil {
		return zzG05Conf{Nil: true, Ups: []string{}}
	}
	d.Ups = []string{}
	v := reflect.ValueOf(conf).Elem()
	uf := v.FieldByName("upstream")
	cf := v.FieldByName("cache")
	if !uf.IsValid() || !cf.IsValid() {
		r.tb.Fatalf("proxy.CustomUpstreamConfig changed its fields")
	}
	uc := *(**proxy.UpstreamConfig)(unsafe.Pointer(uf.UnsafeAddr()))
	if uc != nil {
		for _, u := range uc.Upstreams {
			d.Ups = append(d.Ups, zzG05UpAbs(u.Address()))
		}
		if len(uc.DomainReservedUpstreams)+len(uc.SpecifiedDomainUpstreams) > 0 {
			d.Ups = append(d.Ups, "?domain-specific")
		}
	}
	d.Ce = !cf.IsNil()
	n, ok := r.seen[conf]
	if !ok {
		n = len(r.seen) + 1
		r.seen[conf] = n
		r.keep = append(r.keep, conf)
		d.New = true
	}
	d.Obj = n

	return d
}

func zzG05Try(f func()) (panicked string) {
	defer func() {
		if v := recover(); v != nil {
			panicked = fmt.Sprintf("panic: %v", v)
		}
	}()
	f()

	return ""
}

// =================================================================== replay

type zzG05Uni struct {
	U          string     `json:"u"`
	Addrs      []int      `json:"addrs"`
	LeaseAddrs []int      `json:"leaseaddrs"`
	QAddrs     []int      `json:"qaddrs"`
	Names      []string   `json:"names"`
	IDs        []zzG05ID  `json:"ids"`
	Cids       []zzG05ID  `json:"cids"`
	UpsVals    []zzG05Ups `json:"upsvals"`
	DhcpOn     bool       `json:"dhcpOn"`
	W          int        `json:"w"`
}

type zzG05Cl struct {
	M int `json:"m"` // identifier mask, 0 = absent
	K int `json:"k"` // index into upsvals (1-based)
}

type zzG05State struct {
	U string      `json:"u"`
	I int         `json:"i"`
	R [][5]string `json:"r"` // per runtime address: whois, arp, rdns, dhcp, hosts
	C []zzG05Cl   `json:"c"` // per client name
	V []zzG05View `json:"v"` // per runtime address
	F []string    `json:"f"` // per address of addrs+qaddrs: owner name or ""
}

type zzG05Step struct {
	Op    string      `json:"op"`
	X     int         `json:"x"` // address index (1-based) into addrs / leaseaddrs / qaddrs
	H     string      `json:"h"`
	Wh    string      `json:"w"`
	T     []string    `json:"T"`
	M     int         `json:"m"`
	K     int         `json:"k"`
	N     int         `json:"n"`
	O     int         `json:"o"`
	C     int         `json:"c"`
	R     int         `json:"r"`
	P     string      `json:"p"`
	Views []zzG05View `json:"views"`
	Who   string      `json:"who"`
	Ups   []string    `json:"ups"`
	Ce    bool        `json:"ce"`
	Fresh []string    `json:"fresh"`
	Via   string      `json:"via"`
	D     int         `json:"d"`
}

type zzG05Chunk struct {
	U       string       `json:"u"`
	ID      int          `json:"id"`
	Variant zzG05Variant `json:"variant"`
	Steps   []*zzG05Step `json:"steps"`
}

type zzG05Bad struct {
	T        string       `json:"t"`
	U        string       `json:"u"`
	Chunk    int          `json:"chunk"`
	Variant  zzG05Variant `json:"variant"`
	Step     int          `json:"step"`
	Soft     bool         `json:"soft"` // the real object is still in the spec's state: the tour went on
	Kind     string       `json:"kind"`
	What     string       `json:"what"`
	Concrete string       `json:"concrete"`
	History  []string     `json:"history"`
	Got      any          `json:"got"`
	Want     any          `json:"want"`
	Via      string       `json:"via,omitempty"`
	Pre      bool         `json:"pre,omitempty"`
}

type zzG05Runner struct {
	tb   testing.TB
	uni  *zzG05Uni
	rig  *zzG05Rig
	look int
}

func (rn *zzG05Runner) ids(mask int) (ids []zzG05ID) {
	for i, id := range rn.uni.IDs {
		if mask&(1<<i) != 0 {
			ids = append(ids, id)
		}
	}

	return ids
}

func zzG05ViewIn(v zzG05View, set []zzG05View) (ok bool) { return slices.Contains(set, v) }

// step performs one labelled edge and compares the reply.  what = "" if the
// reply is the spec's.
func (rn *zzG05Runner) step(s *zzG05Step) (concrete, kind, what string, soft bool, got any, pre bool) {
	r := rn.rig
	c := r.conc
	u := rn.uni
	switch s.Op {
	case "upd":
		ip := c.addr(u.Addrs[s.X-1])
		concrete = fmt.Sprintf("UpdateAddress(%s, %q, %v)", ip, c.host(s.H), c.whois(s.Wh))
		r.st.UpdateAddress(r.ctx, ip, c.host(s.H), c.whois(s.Wh))
	case "arp":
		tab := map[int]string{}
		for i, n := range s.T {
			if n != zzG05None {
				tab[u.Addrs[i]] = n
			}
		}
		concrete = fmt.Sprintf("arp table %v; ReloadARP", tab)
		r.arpSet(tab)
		r.st.ReloadARP(r.ctx)
	case "hosts":
		tab := map[int][]string{}
		for i, n := range s.T {
			if n != zzG05None {
				tab[u.Addrs[i]] = []string{n, n + "-alias"}
			}
		}
		concrete = fmt.Sprintf("hosts file %v", tab)
		r.hostsSend(tab)
	case "lease":
		ip := c.addr(u.LeaseAddrs[s.X-1])
		var mac net.HardwareAddr
		if s.M != 0 {
			mac = c.mac(s.M)
		}
		concrete = fmt.Sprintf("dhcp lease %s -> %v %q", ip, mac, c.host(s.H))
		r.dhcp.set(ip, mac, c.host(s.H))
	case "list":
		concrete = "UpdateDHCP; RangeRuntime"
		r.st.UpdateDHCP(r.ctx)
		views, bad := r.rangeViews()
		rn.look++
		got = views
		if len(bad) > 0 {
			return concrete, "list", strings.Join(bad, "; "), false, got, false
		}
		for i, a := range u.Addrs {
			g, ok := views[a]
			if !ok {
				g = zzG05NoView
			}
			if g != s.Views[i] {
				return concrete, "list", fmt.Sprintf("listing of %s: got %v, spec %v", c.addr(a), g, s.Views[i]), false, got, false
			}
		}
	case "look":
		ip := c.addr(u.Addrs[s.X-1])
		concrete = fmt.Sprintf("ClientRuntime(%s)", ip)
		v := r.view(r.st.ClientRuntime(ip))
		rn.look++
		got = v
		if !zzG05ViewIn(v, s.Views) {
			return concrete, "look", fmt.Sprintf("got %v, spec admits %v", v, s.Views), false, got, false
		}
	case "who":
		ip := c.addr(u.Addrs[s.X-1])
		concrete = fmt.Sprintf("Find(%q) else ClientRuntime", ip)
		p, ok := r.st.Find(ip.String())
		rn.look++
		if ok {
			got = p.Name
			if s.P == "" || p.Name != c.name(s.P) {
				return concrete, "who", fmt.Sprintf("persistent client %q, spec %q", p.Name, s.P), false, got, false
			}

			break
		}
		v := r.view(r.st.ClientRuntime(ip))
		got = v
		if s.P != "" {
			return concrete, "who", fmt.Sprintf("no persistent client, spec %q", s.P), false, got, false
		}
		if !zzG05ViewIn(v, s.Views) {
			return concrete, "who", fmt.Sprintf("got %v, spec admits %v", v, s.Views), false, got, false
		}
	case "add":
		p := r.persistent(u.Names[s.N-1], rn.ids(s.M), u.UpsVals[s.K-1])
		concrete = fmt.Sprintf("Add(%q %v ups=%q cache=%v)", p.Name, p.IDs(), p.Upstreams, p.UpstreamsCacheEnabled)
		out := 0
		if err := r.st.Add(r.ctx, p); err != nil {
			out = 1
			concrete += " -> " + err.Error()
		}
		got = out
		if out != s.R {
			return concrete, "reply", fmt.Sprintf("reply %d, spec %d (0 accepted, 1 refused)", out, s.R), false, got, false
		}
	case "updc":
		p := r.persistent(u.Names[s.N-1], rn.ids(s.M), u.UpsVals[s.K-1])
		old := c.name(u.Names[s.O-1])
		concrete = fmt.Sprintf("Update(%q, %q %v ups=%q cache=%v)", old, p.Name, p.IDs(), p.Upstreams, p.UpstreamsCacheEnabled)
		out := 0
		if err := r.st.Update(r.ctx, old, p); err != nil {
			out = 1
			concrete += " -> " + err.Error()
		}
		got = out
		if out != s.R {
			return concrete, "reply", fmt.Sprintf("reply %d, spec %d (0 accepted, 1 refused)", out, s.R), false, got, false
		}
	case "rem":
		name := c.name(u.Names[s.N-1])
		concrete = fmt.Sprintf("RemoveByName(%q)", name)
		out := 0
		if !r.st.RemoveByName(r.ctx, name) {
			out = 1
		}
		got = out
		if out != s.R {
			return concrete, "reply", fmt.Sprintf("reply %d, spec %d (0 removed, 1 unknown)", out, s.R), false, got, false
		}
	case "common":
		concrete = "UpdateCommonUpstreamConfig"
		r.common()
	case "cust":
		cid := ""
		if id := u.Cids[s.C-1]; id.K == "cid" {
			cid = c.cid(id.A)
		}
		ip := c.addr(u.QAddrs[s.X-1])
		concrete = fmt.Sprintf("CustomUpstreamConfig(%q, %s)", cid, ip)
		conf := r.st.CustomUpstreamConfig(cid, ip)
		rn.look++
		d := r.describe(conf)
		got = d
		if s.Who == "" {
			if !d.Nil {
				return concrete, "cust-notnil", fmt.Sprintf("a configuration %v, spec: nil", d), false, got, false
			}

			break
		}
		owner, ok := r.st.FindByName(c.name(s.Who))
		if !ok {
			return concrete, "cust", "the owner " + s.Who + " is not registered", false, got, false
		}
		pre = r.pre[owner.UID]
		if d.Nil {
			return concrete, "cust-nil", fmt.Sprintf("nil, spec: the configuration of %s %v cache=%v", s.Who, s.Ups, s.Ce), false, got, pre
		}
		if !slices.Equal(d.Ups, s.Ups) || d.Ce != s.Ce {
			return concrete, "cust-settings", fmt.Sprintf("configuration %v cache=%v, spec: that of %s: %v cache=%v", d.Ups, d.Ce, s.Who, s.Ups, s.Ce), false, got, pre
		}
		fresh := "other"
		if d.New {
			fresh = "new"
		} else if r.lastObj[owner.UID] == conf {
			fresh = "same"
		}
		r.lastObj[owner.UID] = conf
		if !slices.Contains(s.Fresh, fresh) {
			// The settings are right: the real object is in the spec's state
			// (a current configuration exists) unless an old object came back.
			return concrete, "cust-" + fresh, fmt.Sprintf("object is %q, spec admits %v", fresh, s.Fresh), fresh == "new", got, pre
		}
	default:
		rn.tb.Fatalf("bad op %q", s.Op)
	}

	return concrete, "", "", false, got, false
}

// observe compares the real object with the spec's state.
func (rn *zzG05Runner) observe(want *zzG05State) (diff string, got any) {
	r := rn.rig
	u := rn.uni
	rows, bad := r.project()
	views, bad2 := r.rangeViews()
	bad = append(bad, bad2...)
	rn.look += 1 + len(u.Addrs)
	got = map[string]any{"rows": rows, "views": views}
	if len(bad) > 0 {
		return strings.Join(bad, "; "), got
	}
	none := [5]string{zzG05None, zzG05None, zzG05None, zzG05None, zzG05None}
	for i, a := range u.Addrs {
		row, ok := rows[a]
		if !ok {
			row = none
		}
		if row != want.R[i] {
			return fmt.Sprintf("runtime data of %s [whois arp rdns dhcp hosts]: got %q, spec %q", r.conc.addr(a), row, want.R[i]), got
		}
		v, ok := views[a]
		if !ok {
			v = zzG05NoView
		}
		if v != want.V[i] {
			return fmt.Sprintf("RangeRuntime reports %v for %s, spec %v", v, r.conc.addr(a), want.V[i]), got
		}
	}
	all := append(slices.Clone(u.Addrs), u.QAddrs...)
	for i, a := range all {
		ip := r.conc.addr(a)
		p, ok := r.st.Find(ip.String())
		rn.look++
		name := ""
		if ok {
			name = p.Name
		}
		w := ""
		if want.F[i] != "" {
			w = r.conc.name(want.F[i])
		}
		if name != w {
			return fmt.Sprintf("Find(%s) = %q, spec %q", ip, name, w), got
		}
	}
	for i, n := range u.Names {
		p, ok := r.st.FindByName(r.conc.name(n))
		rn.look++
		wc := want.C[i]
		if !ok {
			if wc.M != 0 {
				return fmt.Sprintf("client %s is missing", n), got
			}

			continue
		}
		if wc.M == 0 {
			return fmt.Sprintf("client %s exists, spec: absent", n), got
		}
		wantIDs := []string{}
		for _, id := range rn.ids(wc.M) {
			wantIDs = append(wantIDs, r.conc.idString(id))
		}
		gotIDs := p.IDs()
		sort.Strings(wantIDs)
		sort.Strings(gotIDs)
		wu := u.UpsVals[wc.K-1]
		if !slices.Equal(gotIDs, wantIDs) || !slices.Equal(p.Upstreams, r.conc.upstreams(wu.Ups)) || p.UpstreamsCacheEnabled != wu.Ce {
			return fmt.Sprintf("client %s is %v ups=%q cache=%v, spec %v ups=%q cache=%v", n, gotIDs, p.Upstreams,
				p.UpstreamsCacheEnabled, wantIDs, r.conc.upstreams(wu.Ups), wu.Ce), got
		}
	}

	return "", got
}

func zzG05RunChunk(tb testing.TB, uni *zzG05Uni, states []*zzG05State, init int, c *zzG05Chunk) (steps, look int, bads []*zzG05Bad) {
	v := c.Variant
	v.W = uni.W
	all := append(slices.Clone(uni.Addrs), uni.QAddrs...)
	all = append(all, uni.LeaseAddrs...)
	rig := zzG05NewRig(tb, v, uni.DhcpOn, all, 1000*time.Hour)
	defer rig.close()
	rn := &zzG05Runner{tb: tb, uni: uni, rig: rig}

	mk := func(i int, soft bool, kind, what, concrete string, hist []string, got, want any) *zzG05Bad {
		return &zzG05Bad{T: "bad", U: c.U, Chunk: c.ID, Variant: c.Variant, Step: i, Soft: soft, Kind: kind, What: what,
			Concrete: concrete, History: slices.Clone(hist), Got: got, Want: want}
	}

	if d, got := rn.observe(states[init]); d != "" {
		return 0, rn.look, []*zzG05Bad{mk(-1, false, "state", "fresh storage: "+d, "NewStorage", nil, got, states[init])}
	}
	var hist []string
	for i, s := range c.Steps {
		var concrete, kind, what string
		var soft, pre bool
		var got any
		if pm := zzG05Try(func() { concrete, kind, what, soft, got, pre = rn.step(s) }); pm != "" {
			kind, what, soft = "panic", pm, false
			if concrete == "" {
				concrete = fmt.Sprintf("%s %+v", s.Op, *s)
			}
		}
		steps++
		if len(hist) < 200 {
			hist = append(hist, concrete)
		}
		if what != "" {
			b := mk(i, soft, kind, what, concrete, hist, got, s)
			b.Via, b.Pre = s.Via, pre
			bads = append(bads, b)
			if !soft {
				return steps, rn.look, bads
			}
		}
		var d string
		if pm := zzG05Try(func() { d, got = rn.observe(states[s.D]) }); pm != "" {
			d = pm
		}
		if d != "" {
			bads = append(bads, mk(i, false, "state", d, concrete, hist, got, states[s.D]))

			return steps, rn.look, bads
		}
	}

	return steps, rn.look, bads
}

func TestZZVerifG05Replay(t *testing.T) {
	unis := map[string]*zzG05Uni{}
	states := map[string][]*zzG05State{}
	inits := map[string]int{}
	var chunks []*zzG05Chunk
	zzReadNDJSON(t, "VERIF_IN", func(line []byte) {
		var head struct {
			T    string `json:"t"`
			Init bool   `json:"init"`
		}
		if err := json.Unmarshal(line, &head); err != nil {
			t.Fatalf("bad line: %v", err)
		}
		switch head.T {
		case "u":
			u := &zzG05Uni{}
			if err := json.Unmarshal(line, u); err != nil {
				t.Fatalf("bad universe: %v", err)
			}
			unis[u.U] = u
		case "s":
			s := &zzG05State{}
			if err := json.Unmarshal(line, s); err != nil {
				t.Fatalf("bad state: %v: %s", err, line)
			}
			for len(states[s.U]) <= s.I {
				states[s.U] = append(states[s.U], nil)
			}
			states[s.U][s.I] = s
			if head.Init {
				inits[s.U] = s.I
			}
		case "c":
			c := &zzG05Chunk{}
			if err := json.Unmarshal(line, c); err != nil {
				t.Fatalf("bad chunk: %v", err)
			}
			chunks = append(chunks, c)
		}
	})

	w := zzNewWriter(t, "VERIF_OUT")
	defer w.close()
	var wmu sync.Mutex

	workers := 4
	if s := os.Getenv("VERIF_WORKERS"); s != "" {
		fmt.Sscanf(s, "%d", &workers)
	}
	jobs := make(chan *zzG05Chunk)
	var wg sync.WaitGroup
	var totalSteps, totalLook, totalBad, doneChunks int
	for wi := 0; wi < workers; wi++ {
		wg.Add(1)
		go func() {
			defer wg.Done()
			for c := range jobs {
				steps, look, bads := zzG05RunChunk(t, unis[c.U], states[c.U], inits[c.U], c)
				wmu.Lock()
				totalSteps += steps
				totalLook += look
				doneChunks++
				for _, b := range bads {
					totalBad++
					if totalBad <= 5000 {
						w.put(b)
					}
				}
				wmu.Unlock()
			}
		}()
	}
	for _, c := range chunks {
		jobs <- c
	}
	close(jobs)
	wg.Wait()

	w.put(map[string]any{"t": "summary", "chunks": doneChunks, "steps": totalSteps, "lookups": totalLook, "bad": totalBad})
}

// ==================================================================== trace

// The universe of the recorded histories (W = 8: an abstract address is the
// host byte).  81, 82 lie in 80/4 and 64/2; 97 only in 64/2; 193, 194 in none.
var (
	zzG05TAddrs = []int{81, 82, 97, 193, 194}
	zzG05TIDs   = []zzG05ID{{"cid", 1, 0}, {"cid", 2, 0}, {"ip", 81, 0}, {"ip", 193, 0}, {"net", 64, 2}, {"net", 80, 4},
		{"mac", 1, 0}, {"mac", 2, 0}}
	zzG05TNames = []string{"n1", "n2", "n3"}
	zzG05TUps   = []zzG05Ups{
		{Ups: []zzG05Line{}, Ce: false},
		{Ups: []zzG05Line{{"up", "u1"}}, Ce: false},
		{Ups: []zzG05Line{{"up", "u1"}}, Ce: true},
		{Ups: []zzG05Line{{"up", "u2"}, {"up", "u3"}}, Ce: true},
		{Ups: []zzG05Line{{"comment", ""}, {"empty", ""}, {"up", "u2"}}, Ce: false},
		{Ups: []zzG05Line{{"comment", ""}}, Ce: true},
		{Ups: []zzG05Line{{"empty", ""}}, Ce: false},
	}
)

type zzG05TClient struct {
	Name string      `json:"name"`
	IDs  []zzG05ID   `json:"ids"`
	Ups  []zzG05Line `json:"ups"`
	Ce   bool        `json:"ce"`
}

func zzG05Pick[T any](rng *rand.Rand, xs []T) (x T) { return xs[rng.Intn(len(xs))] }

func TestZZVerifG05Trace(t *testing.T) {
	w := zzNewWriter(t, "VERIF_OUT")
	defer w.close()

	nTraces, nOps := 40, 60
	if os.Getenv("VERIF_TIER") == "thorough" {
		nTraces, nOps = 220, 80
	}
	if s := os.Getenv("VERIF_TRACES"); s != "" {
		fmt.Sscanf(s, "%d", &nTraces)
	}
	only := map[int]bool{}
	for _, s := range strings.Split(os.Getenv("VERIF_TRACE_ONLY"), ",") {
		var n int
		if _, err := fmt.Sscanf(s, "%d", &n); err == nil {
			only[n] = true
		}
	}
	for tr := 0; tr < nTraces; tr++ {
		if len(only) > 0 && !only[tr] {
			continue
		}
		zzG05OneTrace(t, w, tr, nOps, zzSeed()*1000003+int64(tr))
	}
}

func zzG05OneTrace(tb testing.TB, w *zzWriter, tr, nOps int, seed int64) {
	rng := rand.New(rand.NewSource(seed))
	v := zzG05Variant{V6: rng.Intn(3) == 0, MacLen: []int{6, 6, 8, 20}[rng.Intn(4)], Scheme: []string{"", "tcp://", "tls://"}[rng.Intn(3)],
		Salt: rng.Intn(1000), W: 8}
	dhcpOn := rng.Intn(4) != 0
	// mode: 0 = runtime sources mostly, 1 = upstreams mostly, 2 = mixed; ticker = periodic ARP refresh in real time
	mode := rng.Intn(3)
	ticker := rng.Intn(5) == 0
	period := 1000 * time.Hour
	if ticker {
		period = 3 * time.Millisecond
	}
	rig := zzG05NewRig(tb, v, dhcpOn, zzG05TAddrs, period)
	defer rig.close()
	c := rig.conc

	line := func(m map[string]any) {
		rows, bad := rig.project()
		p := [][]any{}
		for _, a := range zzG05TAddrs {
			if row, ok := rows[a]; ok {
				p = append(p, []any{a, row})
			}
		}
		if bad == nil {
			bad = []string{}
		}
		m["proj"] = p
		m["projbad"] = bad
		m["trace"] = tr
		w.put(m)
	}
	w.put(map[string]any{"op": "reset", "trace": tr, "on": dhcpOn, "addrs": zzG05TAddrs, "v": v, "ticker": ticker, "mode": mode})

	viewJ := func(vw zzG05View) []string { return []string{vw[0], vw[1], vw[2]} }
	randClient := func(name string) (tc zzG05TClient) {
		tc.Name = name
		n := 1 + rng.Intn(2)
		perm := rng.Perm(len(zzG05TIDs))
		for _, i := range perm[:n] {
			tc.IDs = append(tc.IDs, zzG05TIDs[i])
		}
		u := zzG05Pick(rng, zzG05TUps)
		tc.Ups, tc.Ce = u.Ups, u.Ce

		return tc
	}
	outStr := func(err error) string {
		if err != nil {
			return "err"
		}

		return "ok"
	}
	arpDead := false
	var lastClient = map[string]zzG05TClient{}

	weights := map[string][]int{
		//            upd arp hosts lease list look who add updc rem common cust
		"0": {14, 8, 8, 10, 8, 10, 8, 3, 1, 2, 0, 0},
		"1": {1, 0, 0, 6, 0, 0, 1, 8, 8, 3, 5, 30},
		"2": {8, 5, 5, 8, 5, 6, 6, 5, 4, 2, 2, 12},
	}[fmt.Sprint(mode)]
	ops := []string{"upd", "arp", "hosts", "lease", "list", "look", "who", "add", "updc", "rem", "common", "cust"}
	total := 0
	for _, x := range weights {
		total += x
	}
	for i := 0; i < nOps; i++ {
		k := rng.Intn(total)
		op := ""
		for j, x := range weights {
			if k < x {
				op = ops[j]

				break
			}
			k -= x
		}
		a := zzG05Pick(rng, zzG05TAddrs)
		ip := c.addr(a)
		switch op {
		case "upd":
			h := zzG05Pick(rng, []string{"", "", "r1", "r2"})
			wh := zzG05Pick(rng, []string{zzG05None, zzG05None, "w1", "w2", ""})
			rig.st.UpdateAddress(rig.ctx, ip, c.host(h), c.whois(wh))
			line(map[string]any{"op": op, "a": a, "h": h, "w": wh, "conc": fmt.Sprintf("UpdateAddress(%s, %q, %v)", ip, c.host(h), c.whois(wh))})
		case "arp":
			tab := map[int]string{}
			if rng.Intn(6) != 0 {
				for _, x := range zzG05TAddrs {
					if rng.Intn(3) == 0 {
						tab[x] = zzG05Pick(rng, []string{"a1", "a2", ""})
					}
				}
			}
			T := [][]any{}
			for _, x := range zzG05TAddrs {
				if n, ok := tab[x]; ok {
					T = append(T, []any{x, n})
				}
			}
			fail := !arpDead && rng.Intn(25) == 0
			rig.arpSet(tab)
			how := "ReloadARP"
			if ticker && !arpDead {
				how = "ticker"
				if !rig.arpTick(fail) {
					how = "ticker: NO periodic refresh within 10 s"
				}
			} else {
				if fail {
					rig.arp.mu.Lock()
					rig.arp.fail = true
					rig.arp.mu.Unlock()
				}
				rig.st.ReloadARP(rig.ctx)
			}
			if fail {
				arpDead = true
			}
			line(map[string]any{"op": op, "T": T, "fail": fail, "conc": fmt.Sprintf("arp table %v (%s, refresh error %v)", tab, how, fail)})
		case "hosts":
			tab := map[int][]string{}
			T := [][]any{}
			for _, x := range zzG05TAddrs {
				if rng.Intn(3) == 0 {
					names := []string{zzG05Pick(rng, []string{"h1", "h2", "h3"})}
					if rng.Intn(2) == 0 {
						names = append(names, zzG05Pick(rng, []string{"h1", "h2", "h3", "h4"}))
					}
					tab[x] = names
					T = append(T, []any{x, names})
				}
			}
			rig.hostsSend(tab)
			line(map[string]any{"op": op, "T": T, "conc": fmt.Sprintf("hosts file %v", tab)})
		case "lease":
			mac := zzG05ID{"none", 0, 0}
			host := zzG05None
			var hw net.HardwareAddr
			if rng.Intn(3) != 0 {
				mac = zzG05ID{"mac", 1 + rng.Intn(3), 0}
				host = zzG05Pick(rng, []string{"d1", "d2", "d1", ""})
				hw = c.mac(mac.A)
			}
			rig.dhcp.set(ip, hw, c.host(strings.TrimPrefix(host, zzG05None)))
			line(map[string]any{"op": op, "a": a, "mac": mac, "host": host, "conc": fmt.Sprintf("dhcp lease %s -> %v %q", ip, hw, host)})
		case "list":
			rig.st.UpdateDHCP(rig.ctx)
			views, bad := rig.rangeViews()
			if bad == nil {
				bad = []string{}
			}
			out := [][]any{}
			for _, x := range zzG05TAddrs {
				if vw, ok := views[x]; ok {
					out = append(out, []any{x, viewJ(vw)})
				}
			}
			line(map[string]any{"op": op, "out": out, "bad": bad, "conc": "UpdateDHCP; RangeRuntime"})
		case "look":
			vw := rig.view(rig.st.ClientRuntime(ip))
			line(map[string]any{"op": op, "a": a, "out": viewJ(vw), "conc": fmt.Sprintf("ClientRuntime(%s)", ip)})
		case "who":
			p, ok := rig.st.Find(ip.String())
			name := ""
			vw := zzG05NoView
			if ok {
				name = p.Name
				for _, n := range zzG05TNames {
					if c.name(n) == p.Name {
						name = n
					}
				}
			} else {
				vw = rig.view(rig.st.ClientRuntime(ip))
			}
			line(map[string]any{"op": op, "a": a, "p": name, "out": viewJ(vw), "conc": fmt.Sprintf("Find(%q) else ClientRuntime", ip)})
		case "add":
			tc := randClient(zzG05Pick(rng, zzG05TNames))
			p := rig.persistent(tc.Name, tc.IDs, zzG05Ups{Ups: tc.Ups, Ce: tc.Ce})
			err := rig.st.Add(rig.ctx, p)
			if err == nil {
				lastClient[tc.Name] = tc
			}
			line(map[string]any{"op": op, "c": tc, "out": outStr(err), "conc": fmt.Sprintf("Add(%q %v ups=%q cache=%v) -> %v", p.Name, p.IDs(), p.Upstreams, p.UpstreamsCacheEnabled, err)})
		case "updc":
			old := zzG05Pick(rng, zzG05TNames)
			tc := randClient(zzG05Pick(rng, []string{old, old, old, zzG05Pick(rng, zzG05TNames)}))
			if prev, ok := lastClient[old]; ok && rng.Intn(2) == 0 {
				// the edit a user makes most often: something else than the upstreams
				tc.Ups, tc.Ce = prev.Ups, prev.Ce
				if rng.Intn(2) == 0 {
					tc.IDs = prev.IDs
				}
			}
			p := rig.persistent(tc.Name, tc.IDs, zzG05Ups{Ups: tc.Ups, Ce: tc.Ce})
			err := rig.st.Update(rig.ctx, c.name(old), p)
			if err == nil {
				delete(lastClient, old)
				lastClient[tc.Name] = tc
			}
			line(map[string]any{"op": op, "n": old, "c": tc, "out": outStr(err), "conc": fmt.Sprintf("Update(%q, %q %v ups=%q cache=%v) -> %v", c.name(old), p.Name, p.IDs(), p.Upstreams, p.UpstreamsCacheEnabled, err)})
		case "rem":
			n := zzG05Pick(rng, zzG05TNames)
			ok := rig.st.RemoveByName(rig.ctx, c.name(n))
			if ok {
				delete(lastClient, n)
			}
			out := "err"
			if ok {
				out = "ok"
			}
			line(map[string]any{"op": op, "n": n, "out": out, "conc": fmt.Sprintf("RemoveByName(%q) -> %v", c.name(n), ok)})
		case "common":
			rig.common()
			line(map[string]any{"op": op, "conc": "UpdateCommonUpstreamConfig"})
		case "cust":
			cid := zzG05ID{"none", 0, 0}
			cs := ""
			if rng.Intn(3) == 0 {
				cid = zzG05ID{"cid", 1 + rng.Intn(3), 0}
				cs = c.cid(cid.A)
			}
			conf := rig.st.CustomUpstreamConfig(cs, ip)
			d := rig.describe(conf)
			// Who would own the request by lease MAC only (classification aid, not used by the spec).
			line(map[string]any{"op": op, "cid": cid, "a": a, "out": d, "conc": fmt.Sprintf("CustomUpstreamConfig(%q, %s)", cs, ip)})
		}
	}
}
