------------------------------ MODULE RuleList ------------------------------
(***************************************************************************)
(* C15, parser half, exhaustive universe.                                  *)
(*                                                                         *)
(* Every text of at most MaxLines lines, each line one of LineShapes with  *)
(* one of the endings LF / CRLF / bare CR (the last line may also end at   *)
(* end of input), is built line by line; for each of them TLC              *)
(*   - checks the properties of the statement on the specification itself  *)
(*     (NormalFormIsFixedPoint, NormalIsClean, the enumerated failures),   *)
(*   - emits one vector [t |-> tokens, adm |-> admissible outcomes] that   *)
(*     the Go harness replays into the real rulelist.Parser: the real      *)
(*     outcome must be admissible, the stored bytes must be conc(Normal),  *)
(*     and re-parsing the stored bytes must give the same count, checksum  *)
(*     and bytes.                                                          *)
(*                                                                         *)
(* The parser's two modes (before / after a title line) are explicit state *)
(* of RuleListCore!Run; the universe has a title line at every position    *)
(* and "#"-lines that are not plain comments after and before it.          *)
(*                                                                         *)
(* cfg constants:  MaxLines, Shapes <- ShapesFull | ShapesCore,            *)
(*                 (ShapesLen: rule lines of 4095 .. 65536 bytes),         *)
(*                 Policies <- UniformPolicies | ModePolicies (negative),  *)
(*                 Endings <- EndingsAll | EndingsLFCR                     *)
(***************************************************************************)
EXTENDS RuleListCore, TLC, Json

CONSTANTS MaxLines, Shapes, Endings,
          Policies    \* UniformPolicies; ModePolicies is the negative control

\* Line shapes (token sequences, without the ending).
ShapesCore == {
    <<"R1">>,                 \* rule
    <<"R2">>,                 \* another rule
    <<"SP", "R1", "SP">>,     \* spaced(rule)
    <<"HASH">>,               \* comment #
    <<"BANG">>,               \* comment !
    <<"TITLE">>,              \* title
    <<>>,                     \* blank
    <<"HTML">>,               \* html line (fails only when first)
    <<"COSM">>,               \* "#"-line that is not a plain comment (policy)
    <<"R2", "BIN">>           \* control byte in a rule: binary
}
ShapesFull == ShapesCore \cup {
    <<"SP">>,                 \* white space only
    <<"SP", "HASH">>,         \* indented comment
    <<"HASH", "BIN">>,        \* control byte inside a comment (soft)
    <<"R1", "SP", "R2">>,     \* inner white space is kept
    <<"VT", "R2", "VT">>,     \* VT/FF at the ends are white space
    <<"R1", "VT", "R2">>,     \* ... inside they are control bytes
    <<"RL">>,                 \* long line (1..60 KiB)
    <<"R2", "SP", "HASH">>    \* "rule # trailing text" is a rule
}

\* Line length as a dimension: long rule lines between short ones.
ShapesLen == {
    <<"R1">>, <<"SP", "R2", "SP">>, <<"HASH">>, <<>>,
    <<"L4095">>, <<"L4096">>, <<"L4097">>, <<"L5K">>, <<"L40K">>, <<"L65535">>, <<"L65536">>
}

EndingsAll  == {<<"LF">>, <<"CR", "LF">>, <<"CR">>}
EndingsLFCR == {<<"LF">>, <<"CR", "LF">>}

VARIABLES st,      \* "init" | "build"
          text,    \* tokens so far; every line so far is terminated
          n        \* number of lines in text
vars == <<st, text, n>>

Emit(t) == PrintT(<<"@@V", ToJson([t |-> t, adm |-> AdmissibleTagged(t)])>>)

Init == st = "init" /\ text = <<>> /\ n = 0

\* The empty text.
Start == /\ st = "init"
         /\ st' = "build"
         /\ UNCHANGED <<text, n>>
         /\ Emit(text)

\* Append one terminated line; the same line at end of input (no ending)
\* is a text of its own and is emitted as well, but not extended.
AddLine == /\ st = "build"
           /\ n < MaxLines
           /\ \E s \in Shapes, e \in Endings :
                /\ text' = text \o s \o e
                /\ n' = n + 1
                /\ st' = "build"
                /\ Emit(text')
                /\ (e = <<"LF">> /\ s # <<>> => Emit(text \o s))

Next == Start \/ AddLine
Spec == Init /\ [][Next]_vars

------------------------------------------------------------------------------
\* Properties.
\* The texts this state stands for: text itself and, if its last line ends
\* in LF, the same without that LF.
Here == {text} \cup (IF text # <<>> /\ text[Len(text)] = "LF"
                     THEN {SubSeq(text, 1, Len(text) - 1)} ELSE {})

\* One text against the statement under one policy (one operator so that TLC
\* parses t once).
Props(t, pol) ==
    LET ls == Lines(t)
        p  == Parse(t, pol)
        tr == [j \in DOMAIN ls |-> Trim(ls[j])]
    IN
    \* NormalFormIsFixedPoint - for a title line at every position of the text
    /\ FixedPoint(t, pol)
    \* NormalIsClean: comments and blank lines dropped, lines trimmed
    /\ p.ok => Clean(p.rules)
    \* RulesAreInputLines: nothing is invented
    /\ \A i \in DOMAIN p.rules : \E j \in DOMAIN ls : tr[j] = p.rules[i]
    \* HTMLFirstFails: an HTML line before any rule is a failure
    /\ (\E j \in DOMAIN ls :
            /\ tr[j] # <<>> /\ Head(tr[j]) = "HTML"
            /\ \A k \in 1..(j - 1) : tr[k] = <<>> \/ Head(tr[k]) \in Comment)
        => Admissible(t, pol) = {Fail}
    \* BinaryFails: a control byte in a first line that is not a comment
    /\ (ls # <<>> /\ tr[1] # <<>> /\ Head(tr[1]) \notin Comment \cup {"COSM"} /\ Has(tr[1], Control))
        => Admissible(t, pol) = {Fail}
    \* Deterministic: without a soft feature there is exactly one outcome
    /\ ~Soft(t) => Cardinality(Admissible(t, pol)) = 1

Statement == \A t \in Here, pol \in Policies : Props(t, pol)
=============================================================================
