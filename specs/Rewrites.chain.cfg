\* The long-chain family incl. long cycles entered through a lead-in (both
\* tiers): generation + statement invariants.
CONSTANTS U = "chain" MaxLen = 0 EmitFrom = 1 Shard = 0 Perms = FALSE Families = 3 Mode = "gen"
INIT Init
NEXT Next
INVARIANTS Unmatched WellFormed CnameBeatsAddress ExactShadowsWildcardCname ExactShadowsWildcard MostSpecificWildcard SelfAndTypeExceptionsPassThrough AddressesComeFromTableForFinalName MatchedButNoValue
