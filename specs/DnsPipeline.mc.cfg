SPECIFICATION SpecAll
CONSTANT AllModes = FALSE
INVARIANTS MC_C01 MC_C02 NeverForwardedWhileBlocked HistInstalled HistVerdict HistRepeat
PROPERTY UpstreamOnlyWithoutResponse
