#!/usr/bin/env python3
"""keep_seeded.py <id> <property> <srcdir> <worktree> <pkg> [-race] -- confirm, run quick check, store under seeded/<id>/."""
import json, os, shutil, sys
sys.path.insert(0, os.path.dirname(os.path.abspath(__file__)))
import seeded
sid, prop, src, wt, pkg = sys.argv[1:6]
race = "-race" in sys.argv
conf = seeded.confirm(wt, src, pkg, race)
ok = conf.get("demo_clean_pass") and conf.get("patch_applies") and conf.get("builds") and conf.get("existing_tests_pass") and conf.get("demo_mutant_fails")
if not ok:
    print("NOT CONFIRMED", json.dumps(conf)[:1500]); sys.exit(1)
chk = seeded.check(wt, os.path.join(src, "patch.diff"), prop, "quick")
d = os.path.join("/verif/seeded", sid)
os.makedirs(d, exist_ok=True)
for f in ("patch.diff", "demo_test.go", "README.md"):
    if os.path.exists(os.path.join(src, f)):
        shutil.copy(os.path.join(src, f), d)
readme = open(os.path.join(src, "README.md")).read() if os.path.exists(os.path.join(src, "README.md")) else ""
meta = {"id": sid, "property": prop, "demo_package": pkg, "demo_needs_race": race,
        "what_it_needs_to_manifest": readme.strip()[:1200],
        "confirmed": conf,
        "ran": ["tools/seeded.py confirm %s %s %s%s" % (wt, src, pkg, " -race" if race else ""),
                "VERIF_REPO=<worktree with patch> ./check %s quick" % prop],
        "check_result": chk, "caught_by_quick": chk.get("exit") == 1}
json.dump(meta, open(os.path.join(d, "meta.json"), "w"), indent=1)
print(sid, "kept; quick exit", chk.get("exit"), chk.get("lines", [])[:1])
