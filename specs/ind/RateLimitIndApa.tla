-------------------------- MODULE RateLimitIndApa --------------------------
(***************************************************************************)
(* Apalache front end of RateLimitInd.tla.  Constants: ARBITRARY sets of   *)
(* at most the stated cardinalities, arbitrary naturals; IndInit: an       *)
(* arbitrary state (arbitrary integers everywhere) satisfying IndInv.      *)
(***************************************************************************)
EXTENDS RateLimitInd, Apalache

CInit ==
    /\ Addrs = Gen(3)
    /\ Claims = Gen(3)
    /\ MaxAttemptsSet = Gen(3)
    /\ BlockDurSet = Gen(3)
    /\ Window \in Nat
    /\ MaxTick \in Nat
    /\ ConstOK

IndInit ==
    /\ n \in MaxAttemptsSet
    /\ b \in BlockDurSet
    /\ rec = Gen(3)
    /\ clock \in Nat
    /\ evals \in Nat
    /\ hit = Gen(3)
    /\ streak = Gen(3)
    /\ burst = Gen(3)
    /\ out = Gen(1)
    /\ IndInv

\* T = thorough bounds (measured with 4 addresses: step 106 s under load 100).
CInitT ==
    /\ Addrs = Gen(4)
    /\ Claims = Gen(3)
    /\ MaxAttemptsSet = Gen(3)
    /\ BlockDurSet = Gen(3)
    /\ Window \in Nat
    /\ MaxTick \in Nat
    /\ ConstOK

IndInitT ==
    /\ n \in MaxAttemptsSet
    /\ b \in BlockDurSet
    /\ rec = Gen(4)
    /\ clock \in Nat
    /\ evals \in Nat
    /\ hit = Gen(4)
    /\ streak = Gen(4)
    /\ burst = Gen(4)
    /\ out = Gen(1)
    /\ IndInv
=============================================================================
