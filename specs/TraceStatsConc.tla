--------------------------- MODULE TraceStatsConc ---------------------------
(***************************************************************************)
(* Direction B for C09, schedules.  Each line of hist.ndjson is one        *)
(* concurrent history recorded from the real module: ungated goroutines    *)
(* calling Update, the periodic flush step and GET /control/stats at the   *)
(* same time.  Every operation carries its goroutine, its per-goroutine    *)
(* sequence number and two stamps of one shared atomic counter taken       *)
(* before the call (inv) and after it returned (res); no wall clock.       *)
(*                                                                         *)
(* TLC searches for a linearisation: an order of the operations that       *)
(* respects "a returned before b was invoked" (a.res < b.inv) and in which *)
(* every operation is a step of Stats.tla (DoUpdate / DoFlush / DoTick)    *)
(* and every observed reply is admitted by ObsOK in the state it is        *)
(* linearised in.  A history is accepted iff some complete order exists;   *)
(* the accepted history numbers are printed, the check compares them with  *)
(* the numbers recorded.                                                   *)
(*                                                                         *)
(* The clock (tick) is advanced by the driver only between rounds, never   *)
(* concurrently with a flush, so Flush may stay the single atomic action   *)
(* of Stats.tla (it reads the clock before it takes the locks).            *)
(***************************************************************************)
EXTENDS Stats

Hist == ndJsonDeserialize("hist.ndjson")

TLimits    == 1..8760
SeriesCats == <<2, 3, 5>>

VARIABLES h, done
cvars == <<vars, h, done>>

Ops == Hist[h].ops

\* i may be linearised next: nothing still pending returned before i began.
Ready(i) == /\ i \notin done
            /\ \A j \in DOMAIN Ops \ (done \cup {i}) : ~(Ops[j].res < Ops[i].inv)

Lin(i) ==
    LET e == Ops[i] IN
    /\ \/ e.op = "update" /\ DoUpdate(e.k)
       \/ e.op = "tick"   /\ DoTick(e.k)
       \/ e.op = "flush"  /\ DoFlush
       \/ e.op = "read"   /\ up /\ ObsOK(e, SeriesCats) /\ UNCHANGED vars
    /\ done' = done \cup {i}
    /\ h' = h
    /\ (done' = DOMAIN Ops => PrintT(<<"@@V", ToJson([h |-> h])>>))

CInit == /\ h \in DOMAIN Hist
         /\ done = {}
         /\ lead = 0 /\ phase = Hist[h].ph /\ up = TRUE /\ enabled = TRUE
         /\ limit = Hist[h].limit /\ cur = Zero /\ db = EmptyFn /\ ledger = EmptyFn

CNext == \E i \in DOMAIN Ops : Ready(i) /\ Lin(i)

CSpec == CInit /\ [][CNext]_cvars
=============================================================================
