#!/usr/bin/env python3
"""huntprompt.py <Cxx>: prompt for an auditor sub-agent that looks for GENUINE violations of a property in the unchanged tree."""
import json, sys
pid = sys.argv[1]
p = next(json.loads(l) for l in open('/verif/properties.jsonl') if json.loads(l)['id'] == pid)
low = pid.lower()
print(f"""You are auditing a Go code base for genuine defects. You have a scratch git worktree of AdGuard Home at /tmp/hunt-{low} (a detached checkout of the current tree; work ONLY there and under /tmp/hunt-{low}-out; never touch /repo or /verif, and do not read anything under /verif).

Property the code is supposed to satisfy:
"{p['title']}. {p['statement']}"
It must hold {p['quantifier']['text']}.
Relevant code: {', '.join(p['anchors']['files'])}.

Task: find inputs, operation histories, fault points or interleavings for which the code AS IT IS (unmodified) violates this statement. This tree has already been audited THREE times and about eighty defects were repaired (`git log --grep '^fix:' --stat` in the worktree shows every repair: read it first, do not re-report what is fixed, and do not report the mirror image of a fix unless it really fails). The obvious and the second-order cases hold: look where the earlier audits did not — state that outlives the object it belongs to (caches, indexes, counters, ids that restart), alternative entry points (config load vs API, legacy endpoints, restart), error paths that leave half-updated state, rare but legal inputs (IPv6 zones, IPv4-mapped addresses, letter case, Unicode, trailing dots, empty/maximal values, duplicates), interactions between two features, time (expiry boundaries, DST, clock steps), and concurrency. Read the code carefully and try your hypotheses with small throw-away tests before you conclude.

For each genuine violation i you can DEMONSTRATE write into /tmp/hunt-{low}-out/<i>/:
- demo_test.go: a self-contained in-package Go test (name TestHuntDemo...) that FAILS on the unmodified tree because of the violation and is deterministic (run it 3 times); it must go through the real code (the most public entry point that shows it), not re-implement it;
- fix.diff: a minimal patch (output of `git diff`) that a maintainer would accept — it corrects the behaviour, does not special-case the failing input or remove a feature; with it applied the demo passes, `go build ./...` succeeds and the existing tests of the touched packages pass (`go test -vet=off -count=1 ./internal/<pkg>/...`);
- README.md: the package directory of the demo and the exact go test command; the concrete failing input/history; which clause of the statement it violates and why this is a defect of the code rather than behaviour the project documents or intends (check README.md, AGHTechDoc.md, openapi/, CHANGELOG.md and comments — if the project documents the behaviour, it is not a finding); how severe/realistic it is.
Be strict: a finding must follow from the statement as written. Do not use `git stash` (the stash is shared between all worktrees of this repository): use `git diff > file` and `git checkout -- .`. Do not report style issues, theoretical races you cannot demonstrate, or behaviour outside the statement. Quality over quantity: zero findings after a careful audit is a valid result — then write /tmp/hunt-{low}-out/NONE.md listing the hypotheses you tested and why each holds.
Leave the worktree clean (`git status` empty) at the end.

Environment: run Go with `export GOFLAGS=-mod=mod GOPROXY=off` (no network; do NOT set GOSUMDB or GOTOOLCHAIN). `-race` and `GOEXPERIMENT=synctest` work. The machine is heavily loaded by other jobs: allow generous timeouts. Final message: the list of findings (or none) with the verification results you observed.""")
