SPECIFICATION Spec
CONSTANTS
    Deep = FALSE
    Bug = "norun"
    DoEmit = FALSE
INVARIANTS WriteThrough ReportsRunning TypeOK
PROPERTIES RefusedChangesNothing RestartRestores CrashAtomic AcceptedEverywhere
VIEW View
