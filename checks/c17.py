"""C17 -- local files are read as filter lists only when matching the safe patterns."""
import json
import os
import random
import re
import vlib

PKG = "internal/filtering"
FILES = ["zz_verif_common_test.go", "zz_verif_c17_test.go"]
ENTRIES = ["add", "seturl", "inject"]
SHARDS = 6
ACTIONS = ["AddStep", "SetURLStep", "InjectStep", "RefreshStep", "RemoveStep", "OwnerStep"]


def classify(rec):
    return None  # no known findings for C17


def go_replay(ctx, tables, vectors, tag, shards=SHARDS):
    """Run TestZZVerifC17Replay on the vectors (each with entries/var/idx),
    split over several processes of the one test binary."""
    vin, vout = ctx.path("c17_in_%s.ndjson" % tag), ctx.path("c17_out_%s.ndjson" % tag)
    work = ctx.path("c17_work_%s" % tag)
    os.makedirs(work, exist_ok=True)
    shards = max(1, min(shards, len(vectors)))
    for k in range(shards):
        vlib.write_ndjson("%s.%d" % (vin, k), [tables] + vectors[k::shards])
    rc, out = ctx.go_test(PKG, FILES, "^TestZZVerifC17Replay$", timeout=1700, go_timeout="28m",
                          env={"VERIF_IN": vin, "VERIF_OUT": vout, "VERIF_C17_WORK": work,
                               "VERIF_C17_SHARDS": str(shards)})
    rows, summs = [], []
    for k in range(shards):
        part = vlib.read_ndjson("%s.%d" % (vout, k))
        summs += [r for r in part if r.get("kind") == "summary"]
        rows += [r for r in part if r.get("kind") != "summary"]
    if rc != 0 or len(summs) != shards:
        raise vlib.Inconclusive("C17 replay harness did not complete (rc=%s, %d/%d shards):\n%s" % (
            rc, len(summs), shards, out[-3000:]))
    summ = {"per_entry": {}}
    for s in summs:
        for key, val in s.items():
            if key in ("per_entry", "micros"):
                summ.setdefault(key, {})
                for e, n in val.items():
                    summ[key][e] = summ[key].get(e, 0) + n
            elif key != "kind":
                summ[key] = summ.get(key, 0) + val
    return rows, summ


def check_rows(ctx, rows):
    """Turn harness rows into disagreements / inconclusive verdicts."""
    for r in rows:
        k = r.get("kind")
        if k == "bad":
            ctx.disagreement(classify(r), r, "%s of %r under patterns %s: %s" % (
                r["entry"], r["url"], json.dumps(r.get("patterns") or []), r["what"]))
    soft = [r for r in rows if r.get("kind") in ("mismatch", "instrument", "panic")]
    return soft


def go_trace(ctx):
    """Direction B: record a trace from the real code, let TLC judge it."""
    tout = ctx.path("c17_trace.ndjson")
    work = ctx.path("c17_work_b")
    os.makedirs(work, exist_ok=True)
    rc, out = ctx.go_test(PKG, FILES, "^TestZZVerifC17Trace$", timeout=1200,
                          env={"VERIF_OUT": tout, "VERIF_C17_WORK": work})
    rows = vlib.read_ndjson(tout)
    if rc != 0 or len(rows) < 100:
        raise vlib.Inconclusive("C17 trace driver did not complete (rc=%s, %d lines):\n%s" % (rc, len(rows), out[-3000:]))
    r = ctx.tlc("TraceSafePath", "TraceSafePath.cfg", workers=1, extra_files=[(tout, "trace.ndjson")], timeout=1200)
    if not r["vectors"]:
        raise vlib.Inconclusive("trace spec produced no verdict")
    verdict = r["vectors"][-1]
    if verdict["n"] != len(rows):
        raise vlib.Inconclusive("trace spec consumed %s of %d lines" % (verdict["n"], len(rows)))
    return rows, verdict["bad"]


def epoch_prefix(trows, i):
    """The reset line of the epoch of (1-based) trace line i and the concrete
    operations of the epoch up to and including that line."""
    j = i - 1
    while trows[j]["act"] != "reset":
        j -= 1
    ops = [trows[k]["concrete"]["op"] for k in range(j + 1, i)]
    return trows[j], ops


def redo(ctx, world, ops):
    """Execute a logged history again on a fresh instance (same tree, same
    patterns, same requests in the same order); returns what the LAST
    operation opened and stored."""
    req = {"root": world["root"], "cwd": world["cwd"], "patterns": world["patterns"] or [],
           "dirs": world.get("dirs") or [], "files": world.get("files") or [],
           "scribble": world.get("scribble") or [], "data_dir": world.get("data_dir") or "",
           "planted_dirs": world.get("planted_dirs") or [], "planted_files": world.get("planted_files") or [],
           "ops": ops}
    rin, rout = ctx.path("c17_redo_in.json"), ctx.path("c17_redo.ndjson")
    with open(rin, "w") as fh:
        json.dump(req, fh)
    if os.path.exists(rout):
        os.remove(rout)
    rc, out = ctx.go_test(PKG, FILES, "^TestZZVerifC17Redo$", timeout=600,
                          env={"VERIF_OUT": rout, "VERIF_C17_REDO": rin})
    rows = [r for r in vlib.read_ndjson(rout) if r.get("kind") == "redo"]
    if rc != 0 or not rows:
        raise vlib.Inconclusive("C17 redo did not complete:\n" + out[-2000:])
    return rows[0]


def judge_trace(ctx, trows, bad):
    """Classify the lines TLC rejected.  An 'unsafe' line becomes a
    disagreement when the offending open shows again after the whole history
    of its epoch up to that line is executed again on a fresh instance: what a
    server does may depend on what it did before, so the step is never
    re-executed alone."""
    soft = []
    for b in bad[:10]:
        line = trows[b["i"] - 1]
        if b["kind"] != "unsafe":
            soft.append((b, line))
            continue
        reset, ops = epoch_prefix(trows, b["i"])
        suspicious = set("/" + "/".join(p) for p in b["paths"])
        again = redo(ctx, reset["concrete"], ops)
        if not (set((again.get("opened") or []) + (again.get("stored") or [])) & suspicious):
            soft.append(({"i": b["i"], "kind": "not-reproduced"}, line))
            continue
        rec = {"trace_line": b["i"], "line": line, "redo": again, "world": reset["concrete"], "ops": ops,
               "unsafe": sorted(suspicious)}
        ctx.disagreement(classify(rec), rec, "trace line %d (%s %r after %d earlier operations on the same instance, "
                         "patterns %s) opened/stored %s: rejected by TraceSafePath as unsafe" % (
                             b["i"], line["act"], line["concrete"]["url"], len(ops) - 1,
                             json.dumps(reset["concrete"]["patterns"]), sorted(suspicious)))
    if len(bad) > 10:
        ctx.notes.append("%d further rejected trace lines not examined" % (len(bad) - 10))
    return soft


def make_walks(ctx, edges, rng, max_len, budget):
    """Arrange the edges of the <<pats, known>> graph into walks from the
    initial state (greedy: take an uncovered edge of the current node, else
    go to the nearest node that has one).  budget = number of steps, None =
    until every edge is covered."""
    def nk(known, own):
        return json.dumps([own, sorted(json.dumps(l, sort_keys=True) for l in known)])

    dst = {}

    def after(e):
        if id(e) not in dst:
            dst[id(e)] = after_(e)
        return dst[id(e)]

    def after_(e):
        k = [json.dumps(l, sort_keys=True) for l in e["src"]]
        l = json.dumps(e["loc"], sort_keys=True)
        own = e["own"]
        if e["act"] in ("add", "seturl", "inject") and l not in k:
            k.append(l)
        elif e["act"] == "remove":
            k = [x for x in k if x != l]
        elif e["act"] == "scribble":
            own = "scribbled"
        return json.dumps([own, sorted(k)])

    by_cfg = {}
    for e in edges:
        g = by_cfg.setdefault(json.dumps(sorted(e["cfg"])), {})
        g.setdefault(nk(e["src"], e["own"]), []).append(e)
    for g in by_cfg.values():
        for lst in g.values():
            lst.sort(key=lambda e: json.dumps([e["act"], e["loc"]], sort_keys=True))
            rng.shuffle(lst)
    walks, total, steps = [], len(edges), 0
    covered = set()
    cfgs = sorted(by_cfg)
    pending = {c: sum(len(v) for v in by_cfg[c].values()) for c in cfgs}
    init = json.dumps(["configured", []])
    while any(pending.values()) and (budget is None or steps < budget):
        c = rng.choice([c for c in cfgs if pending[c]])
        g = by_cfg[c]
        node, walk = init, []
        while len(walk) < max_len:
            todo = [e for e in g.get(node, []) if id(e) not in covered]
            if todo:
                path = [todo[0]]
            else:
                # breadth-first search for the nearest node with an uncovered edge
                seen, frontier, path = {node}, [(node, [])], None
                while frontier and path is None:
                    nxt = []
                    for n, p in frontier:
                        for e in g.get(n, []):
                            m = after(e)
                            if m in seen:
                                continue
                            seen.add(m)
                            if any(id(x) not in covered for x in g.get(m, [])):
                                path = p + [e]
                                break
                            nxt.append((m, p + [e]))
                        if path is not None:
                            break
                    frontier = nxt
                if path is None:
                    break
            for e in path:
                if id(e) not in covered:
                    covered.add(id(e))
                    pending[c] -= 1
                walk.append({"act": e["act"], "loc": e["loc"], "may": e["may"]})
                node = after(e)
        if not walk:
            break
        steps += len(walk)
        walks.append({"t": "w", "cfg": json.loads(c), "steps": walk, "idx": len(walks),
                      "var": (ctx.seed * 7368787 + len(walks) * 104729) % (1 << 62)})
    return walks, len(covered), total


def go_walk(ctx, tables, walks, tag="w", shards=SHARDS):
    vin, vout = ctx.path("c17_in_%s.ndjson" % tag), ctx.path("c17_out_%s.ndjson" % tag)
    work = ctx.path("c17_work_%s" % tag)
    os.makedirs(work, exist_ok=True)
    shards = max(1, min(shards, len(walks)))
    for k in range(shards):
        vlib.write_ndjson("%s.%d" % (vin, k), [tables] + walks[k::shards])
    rc, out = ctx.go_test(PKG, FILES, "^TestZZVerifC17Walk$", timeout=1700, go_timeout="28m",
                          env={"VERIF_IN": vin, "VERIF_OUT": vout, "VERIF_C17_WORK": work,
                               "VERIF_C17_SHARDS": str(shards)})
    rows, summs = [], []
    for k in range(shards):
        part = vlib.read_ndjson("%s.%d" % (vout, k))
        summs += [r for r in part if r.get("kind") == "summary"]
        rows += [r for r in part if r.get("kind") != "summary"]
    if rc != 0 or len(summs) != shards:
        raise vlib.Inconclusive("C17 walk harness did not complete (rc=%s, %d/%d shards):\n%s" % (
            rc, len(summs), shards, out[-3000:]))
    summ = {"per_act": {}}
    for s in summs:
        for key, val in s.items():
            if key == "per_act":
                for a, n in val.items():
                    summ["per_act"][a] = summ["per_act"].get(a, 0) + n
            elif key != "kind":
                summ[key] = summ.get(key, 0) + val
    return rows, summ


def action_counts(out):
    """Per-action distinct-state counts from TLC's -coverage output."""
    res = {}
    for m in re.finditer(r"^<(\w+) line \d+, col \d+ to line \d+, col \d+ of module SafePath>: (\d+):(\d+)", out, re.M):
        res[m.group(1)] = (int(m.group(2)), int(m.group(3)))
    return res


def prepare(ctx, vectors, rng):
    """Select vectors and entry points for the tier; add per-vector seeds."""
    sel = []
    for i, v in enumerate(vectors):
        v = dict(v)
        v["idx"] = i
        v["var"] = (ctx.seed * 1000003 + i * 7919) % (1 << 62)
        sel.append(v)
    if ctx.quick:
        # Sample, one seeded entry point each: 1/4 of the vectors whose spec
        # bound is non-empty, 1/20 of the others -- but 1/2 of the vectors whose
        # location contains a RARE name (one that occurs in fewer than 1000
        # vectors: the small location families would otherwise hardly be seen).
        freq = {}
        for v in sel:
            for n in set(v["loc"]["segs"]):
                freq[n] = freq.get(n, 0) + 1
        out = []
        for v in sel:
            nontrivial = bool(v["add"] or v["refresh"])
            p = 0.25 if nontrivial else 0.05
            if any(freq[n] < 1000 for n in v["loc"]["segs"]):
                p = 0.5
            if rng.random() < p:
                v["entries"] = [ENTRIES[rng.randrange(3)]]
                out.append(v)
        return out
    for v in sel:
        v["entries"] = list(ENTRIES)
    return sel


def run(ctx):
    rng = random.Random(ctx.seed)
    # Half 1: the state machine, all histories over the small location set.
    mc = ctx.tlc("SafePath", "SafePath.mc.cfg", workers=6, timeout=600, coverage=True)
    counts = action_counts(mc["out"])
    for a in ACTIONS:
        if counts.get(a, (0, 0))[0] == 0:
            raise vlib.Inconclusive("vacuous: action %s never taken in SafePath.mc.cfg (%s)" % (a, counts))
    # Vector generation: one per (pattern list, location).
    gen = ctx.tlc("SafePath", "SafePath.gen.cfg", workers=6, timeout=900)
    tables = [v for v in gen["vectors"] if v.get("t") == "tables"]
    vectors = [v for v in gen["vectors"] if v.get("t") == "v"]
    if len(tables) != 1 or len(vectors) < 10000:
        raise vlib.Inconclusive("vector generation incomplete: %d tables, %d vectors" % (len(tables), len(vectors)))
    tables = tables[0]
    # TLC's workers print in a run-dependent order: fix it, so that a seed
    # always selects and spells the same vectors.
    vectors.sort(key=lambda v: json.dumps([v["cfg"], v["loc"]], sort_keys=True))
    sel = prepare(ctx, vectors, rng)
    ctx.log("replaying %d of %d vectors (%d scenarios)" % (len(sel), len(vectors), sum(len(v["entries"]) for v in sel)))
    rows, summ = go_replay(ctx, tables, sel, "a")
    # Problems of the model or the harness never count as violations, and
    # never hide a reproduced one: they are collected and make the run
    # inconclusive only if no violation was reproduced.
    problems = []
    soft = check_rows(ctx, rows)
    flaky = [r for r in rows if r.get("kind") == "flaky"]
    skipped = [r for r in rows if r.get("kind") == "skip"]
    if soft:
        r = soft[0]
        problems.append("harness/model problem (%s) in %d scenarios, first: %s of %r: %s" % (
            r["kind"], len(soft), r.get("entry"), r.get("url"), r.get("what")))
    if skipped:
        problems.append("%d scenarios could not be run, first: %s" % (len(skipped), skipped[0]))
    if summ["positive"] < 20 or summ["accepted"] < 20:
        problems.append("vacuous: only %d steps opened a permitted file, %d accepted" % (
            summ["positive"], summ["accepted"]))
    # Direction A, second half: walks over the edges of the state machine,
    # one live instance per walk.
    wk = ctx.tlc("SafePath", "SafePath.walk.cfg", workers=6, timeout=600)
    edges = [v for v in wk["vectors"] if v.get("t") == "e"]
    if len(edges) < 10000:
        raise vlib.Inconclusive("edge generation incomplete: %d edges" % len(edges))
    edges.sort(key=lambda e: json.dumps([e["cfg"], e["own"], e["src"], e["act"], e["loc"]], sort_keys=True))
    walks, ecov, etotal = make_walks(ctx, edges, rng, 40, 12000 if ctx.quick else None)
    ctx.log("walking %d of %d edges in %d walks (%d steps)" % (ecov, etotal, len(walks), sum(len(w["steps"]) for w in walks)))
    wrows, wsumm = go_walk(ctx, tables, walks)
    for r in wrows:
        if r.get("kind") == "bad":
            ctx.disagreement(classify(r), r, "walk under patterns %s, %d earlier steps on the same instance: %s" % (
                json.dumps(r.get("patterns") or []), r["at"], r["what"]))
    wsoft = [r for r in wrows if r.get("kind") in ("mismatch", "instrument", "panic", "skip")]
    wflaky = [r for r in wrows if r.get("kind") == "flaky"]
    if wsoft:
        r = wsoft[0]
        problems.append("walks: harness/model problem (%s) in %d walks, first: %s" % (
            r["kind"], len(wsoft), r.get("what") or r.get("err")))
    if wsumm["positive"] < 20:
        problems.append("vacuous: only %d walk steps opened a permitted file" % wsumm["positive"])
    # Direction B.
    trows, tbad = go_trace(ctx)
    tsoft = judge_trace(ctx, trows, tbad)
    if tsoft:
        b, line = tsoft[0]
        problems.append("trace: %d lines rejected for model/harness reasons, first: line %s kind %s: %s" % (
            len(tsoft), b["i"], b["kind"], json.dumps(line)[:1500]))
    tsteps = [r for r in trows if r["act"] != "reset"]
    topened = sum(1 for r in tsteps if r["opened"])
    if topened < 10:
        problems.append("vacuous: only %d trace steps opened a file" % topened)
    if problems and not ctx.violations:
        raise vlib.Inconclusive("; ".join(problems))
    nt = sum(1 for v in sel if v["add"] or v["refresh"])
    samples = [sel[0], sel[len(sel) // 2], sel[-1], {"trace_line": next((r for r in tsteps if r["opened"]), None)}]
    cov = {
        "traces_validated_against_impl": summ["n"] + wsumm["walks"] + sum(1 for r in trows if r["act"] == "reset"),
        "edges_generated": etotal, "edges_walked": ecov, "walks": wsumm["walks"], "walk_steps": wsumm["steps"],
        "walk_steps_that_opened_a_permitted_file": wsumm["positive"], "walk_requests_accepted": wsumm["accepted"],
        "walk_steps_per_action": wsumm["per_act"], "walk_flaky": len(wflaky),
        "trace_epochs": sum(1 for r in trows if r["act"] == "reset"), "trace_lines": len(trows),
        "trace_lines_rejected": len(tbad), "trace_steps_that_opened_a_file": topened,
        "vectors_generated": len(vectors), "vectors_replayed": len(sel),
        "scenarios_replayed": summ["n"], "steps_observed": summ["steps"],
        "evaluations": summ["n"] + wsumm["steps"] + len(tsteps), "distinct_nontrivial": nt,
        "rule": "one vector per reachable state of SafePath.gen.cfg = (pattern list, location); each is replayed through "
                "up to three entry points (add_url, set_url, configuration file + refresh); non-trivial = the spec "
                "permits opening a file for it",
        "steps_that_opened_a_permitted_file": summ["positive"], "requests_accepted": summ["accepted"],
        "per_entry": summ["per_entry"], "micros_per_entry": summ.get("micros"), "flaky": len(flaky), "panics": summ["panics"],
        "mc_action_counts": {a: counts[a][0] for a in ACTIONS},
        "exhaustive": (not ctx.quick) and ecov == etotal, "samples": samples, "problems": problems,
    }
    return ctx.finish("model_checking", cov, assumptions=[
        "TLC; conc()/abs() of zz_verif_c17_test.go (rendering of locations and globs, tree layout)",
        "opens are observed with inotify IN_OPEN on every directory of the scratch tree, plus sentinel rules in the "
        "stored lists and in the rebuilt engine; symlink-free tree; Linux path semantics only",
        "negated classes and ranges containing the separator are not generated (statement silent)"])


def replay(ctx, path):
    rec = json.load(open(path))["record"]
    if "line" in rec:
        # A trace step: rebuild the tree, execute the epoch's history up to the step again.
        line = rec["line"]
        suspicious = set(rec["unsafe"])
        r = redo(ctx, rec["world"], rec["ops"])
        seen = set((r.get("opened") or []) + (r.get("stored") or []))
        print(json.dumps({"expected": "no open outside the patterns %s" % json.dumps(rec["world"]["patterns"]),
                          "operations": len(rec["ops"]), "observed_last_step": sorted(seen),
                          "still_outside": sorted(seen & suspicious)}, indent=1))
        return 1 if seen & suspicious else 0
    gen = ctx.tlc("SafePath", "SafePath.gen.cfg", workers=6, timeout=900)
    tables = [v for v in gen["vectors"] if v.get("t") == "tables"][0]
    if "walk" in rec:
        rows, summ = go_walk(ctx, tables, [rec["walk"]], "r", 1)
        bad = [r for r in rows if r.get("kind") == "bad"]
        print(json.dumps({"expected_bounds": [st["may"] for st in rec["walk"]["steps"]],
                          "observed": [b["obs"] for b in bad] or "within bounds"}, indent=1))
        return 1 if bad else 0
    vec = dict(rec["vec"])
    vec["entries"] = [rec["entry"]]
    rows, summ = go_replay(ctx, tables, [vec], "r")
    bad = [r for r in rows if r.get("kind") == "bad"]
    print(json.dumps({"expected_bounds": {k: vec[k] for k in ("add", "seturl", "inject", "refresh")},
                      "observed": [b["obs"] for b in bad] or "within bounds"}, indent=1))
    return 1 if bad else 0
