SPECIFICATION FairSpec
CONSTANTS
  MaxEntry = 4
  BufSize = 12
  DepthLimit = 100
  EmptyGuard = TRUE
  MaxLines = 3
  MinLen = 1
  EmitProbes = TRUE
  MaxLen = 3
PROPERTY Terminates
