#!/usr/bin/env python3
"""applyfix.py <property> <key> <diff> <pkgs (space separated, quoted)> <commit message file>
Apply one proposed fix to /repo as one `fix:` commit (after go build + the touched packages' tests pass) and flip
the known_findings entry to fixed with the commit hash.  Used only by the integrator, never by a check."""
import json, os, subprocess, sys
prop, key, diff, pkgs, msgf = sys.argv[1:6]
env = dict(os.environ, GOFLAGS="-mod=mod", GOPROXY="off")
def run(cmd, **kw):
    return subprocess.run(cmd, cwd="/repo", env=env, capture_output=True, text=True, **kw)
if run(["git", "status", "--porcelain"]).stdout.strip():
    sys.exit("repo not clean")
r = run(["git", "apply", "--whitespace=nowarn", diff])
if r.returncode:
    r = run(["git", "apply", "--3way", "--whitespace=nowarn", diff])
    if r.returncode:
        sys.exit("does not apply: " + r.stderr)
r = run(["go", "build", "./..."])
if r.returncode:
    run(["git", "checkout", "--", "."]); sys.exit("build failed: " + r.stderr[-2000:])
r = run(["go", "test", "-count=1"] + pkgs.split())
if r.returncode:
    run(["git", "checkout", "--", "."]); run(["git", "clean", "-fdq"]); sys.exit("tests failed: " + r.stdout[-3000:])
run(["git", "add", "-A"])
msg = open(msgf).read()
assert msg.startswith("fix:")
r = run(["git", "commit", "-q", "-m", msg])
if r.returncode:
    sys.exit("commit failed: " + r.stderr)
h = run(["git", "rev-parse", "--short", "HEAD"]).stdout.strip()
f = "/verif/known_findings/%s.jsonl" % prop
out, hit = [], False
for l in open(f):
    if not l.strip():
        continue
    rec = json.loads(l)
    if rec["key"] == key:
        rec["status"], rec["commit"], hit = "fixed", h, True
    out.append(json.dumps(rec))
open(f, "w").write("\n".join(out) + "\n")
print(prop, key, "->", h, "(entry flipped)" if hit else "(NO ENTRY FOUND)")
