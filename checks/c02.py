"""C02 -- upstream answers revealing a blocked CNAME target or address are not delivered."""
import json
import random
import vlib
import c0102_common as cm

TEST_REPLAY = "TestZZVerifC02Replay"
TEST_TRACE = "TestZZVerifC02Trace"


MAX_REPORTS = 25     # replay records written per direction and run


def classify(rec):
    """Narrow keys of known findings (none for C02)."""
    return None


def generate(ctx):
    cfgname = "DnsPipeline.c02q.cfg" if ctx.quick else "DnsPipeline.c02t.cfg"
    gen = ctx.tlc("DnsPipeline", cfgname, workers=cm.TLC_WORKERS, timeout=1500)
    hdr = [v for v in gen["vectors"] if v.get("kind") == "hdr02"]
    cfgs = [v for v in gen["vectors"] if v.get("kind") == "c02"]
    if len(hdr) != 1 or len(cfgs) < 1000:
        raise vlib.Inconclusive("too few vectors: %d headers, %d configurations" % (len(hdr), len(cfgs)))
    cfgs.sort(key=lambda c: cm.cfg_key(c["cfg"]))
    for i, c in enumerate(cfgs):
        c["i"] = i
        c["tab"].sort(key=lambda e: e["k"])
    return hdr[0], cfgs


def entry_kind(e):
    whys = {o["why"] for o in e["out"]}
    return "R" if "R" in whys else ("up" if all(o["c"] == "up" for o in e["out"]) else "other")


def run(ctx):
    cm.model_check(ctx)
    hdr, cfgs = generate(ctx)
    # Non-trivial configuration: some answer section is replaced AND some other
    # (non-empty) one is delivered, i.e. the rules discriminate between answers.
    def nontrivial(c):
        kinds = {entry_kind(e) for e in c["tab"]}
        return "R" in kinds and "up" in kinds
    # Non-trivial entry: an answer that is replaced although its FIRST record is harmless
    # on its own (the offending record sits further back), or delivered although it
    # contains a record that some other configuration's rules block.
    nt = {c["i"] for c in cfgs if nontrivial(c)}
    sel = cfgs            # the replay costs about as much as generating: both tiers replay every vector
    rng = random.Random(ctx.seed)
    # histories of ONE live server: 4 configurations + the first one again, see c01.py
    walks = cm.make_walks(sel, rng, "w02")
    confirmed, st = cm.replay_with_confirmation(ctx, TEST_REPLAY, cm.FILES02, hdr, walks, "c02")
    for b in confirmed[:MAX_REPORTS]:
        ctx.disagreement(classify(b), b, "C02: %s%s with upstream answer %s -- observed %s, spec admits %s (rule lists over the server's life: %s)" % (
            b["concrete"], " (asked before)" if b.get("rep") else "", json.dumps(b["ans"]), json.dumps(b["got"]),
            json.dumps(b["want"]), json.dumps(b["history"])))

    # Direction B
    n_cfg = 120 if ctx.quick else 600
    trows, bad_lines, ncorrupt = cm.trace_validate(ctx, TEST_TRACE, cm.FILES02, n_cfg, "c02")
    trace_q = sum(1 for r in trows if r["ev"] == "q")
    trace_r = sum(1 for r in trows if r["ev"] == "q" and r["obs"]["why"] == "R")
    rejected = 0
    if bad_lines:
        cis = sorted({cm.cfg_index_of_line(trows, b) for b in bad_lines})
        real_ci = [[r for r in trows if r["ev"] == "cfg"][ci]["ci"] for ci in cis]
        rows2, bad2, _ = cm.trace_validate(ctx, TEST_TRACE, cm.FILES02, n_cfg, "c02b", only=real_ci)
        sig = lambda r: json.dumps([r["req"], r["ans"], r["obs"]], sort_keys=True)
        again = {sig(rows2[b - 1]) for b in bad2}
        for b in bad_lines[:MAX_REPORTS]:
            rec = dict(trows[b - 1])
            if sig(rec) in again:
                rejected += 1
                j = b - 1
                while trows[j]["ev"] != "cfg":
                    j -= 1
                rec["cfg"] = trows[j]["cfg"]
                rec["lists"] = trows[j].get("lists")
                rec["ci"], rec["seed"], rec["n_cfg"] = trows[j]["ci"], ctx.seed, n_cfg
                ctx.disagreement(classify(rec), rec, "C02 trace: %s answer %s -- outcome %s not admitted by DnsPipeline (lists %s)" % (
                    rec.get("concrete"), json.dumps(rec["ans"]), json.dumps(rec["obs"]), json.dumps(rec["lists"])))

    replaced = sum(1 for c in sel for e in c["tab"] if entry_kind(e) == "R")
    delivered = sum(1 for c in sel for e in c["tab"] if entry_kind(e) == "up")
    cached = sum(1 for c in sel if c["cfg"]["cache"])
    foreign = sum(1 for c in sel for e in c["tab"] if entry_kind(e) == "R" and any(e["own"]))
    if replaced == 0 or delivered == 0 or trace_r == 0 or cached == 0 or foreign == 0 or st["reconfigurations"] == 0:
        raise vlib.Inconclusive("vacuous: replaced=%d delivered=%d trace_replaced=%d cached=%d foreign_owner_replaced=%d reconf=%d" % (
            replaced, delivered, trace_r, cached, foreign, st["reconfigurations"]))
    mid = sel[len(sel) // 2]
    samples = [{"cfg": mid["cfg"], "entries": [dict(e, answer=[hdr["rrs"][x - 1] for x in hdr["answers"][e["k"] - 1]])
                                               for e in mid["tab"][20:23]]}]
    samples += st["samples"][:2]
    samples.append({"trace_line": next(r for r in trows if r["ev"] == "q" and r["obs"]["why"] == "R")})
    cov = {
        "traces_validated_against_impl": st["configs"] + trace_q,
        "configurations_generated": len(cfgs), "configurations_replayed": len(sel),
        "live_servers": st["walks"], "configuration_visits": st["configs"],
        "reconfigurations_on_live_servers": st["reconfigurations"], "failed_rebuilds_injected": st["faults"], "configurations_with_cache": cached,
        "entries_replaced_with_foreign_owner": foreign,
        "evaluations": st["evals"] + trace_q,
        "answer_sections_in_universe": len(hdr["answers"]),
        "distinct_nontrivial": len(nt),
        "rule": "one vector = one configuration with its table over upstream answer sections (query type rotating); "
                "non-trivial = the configuration's rules replace some answer sections and deliver others",
        "entries_replaced": replaced, "entries_delivered": delivered,
        "trace_lines": trace_q, "trace_lines_replaced": trace_r, "trace_lines_rejected": rejected,
        "trace_corrupted_lines_rejected": ncorrupt,
        "flaky": st["flaky"], "skipped": st["skipped"],
        "exhaustive": not ctx.quick, "samples": samples,
    }
    return ctx.finish("model_checking", cov, assumptions=[
        "TLC; RuleEngine.tla is a transcription of urlfilter v0.20.0 validated by the C01/C02 replays on the unchanged tree",
        "conc()/abs() of zz_verif_c0102_test.go; 'delivered unchanged' = same records in the same order "
        "(with AAAA disabled, modulo IPv6 hints, on which the statement is silent)",
        "handler level (Server.handleDNSRequest), mock upstream returns the concretised answer section, mock query log",
        "$dnstype is not part of the C02 rule family (the statement does not say which type an answer record is matched as)"])


def replay(ctx, path):
    rec = json.load(open(path))["record"]
    if "walk" in rec:      # direction A
        return cm.replay_stored_walk(ctx, TEST_REPLAY, cm.FILES02, rec, "c02r")
    return cm.replay_trace_record(ctx, TEST_TRACE, cm.FILES02, rec, "c02r")
