SPECIFICATION Spec
