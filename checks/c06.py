"""C06 -- custom DNS rewrites follow the documented precedence and always terminate.

Spec: specs/RewritesCore.tla (decision procedure Outcomes / Serve), specs/Rewrites.tla
(universe, table enumeration, statement invariants, termination), specs/TraceRewrites.tla.

  half 1   TLC checks the clauses of the statement as invariants of every
           enumerated table x query, and termination (liveness + variant) on
           the step machine.
  A        every emitted table is replayed into the real filtering.New /
           CheckHost in every ordering (all queries, membership in the admissible
           set); a sample goes through a real dnsforward.Server with a recording
           mock upstream (pipeline clauses).
  B        random 10-20 entry tables driven through both levels, validated by
           TraceRewrites.tla; a rejected observation is re-executed alone before
           it is reported.
  history  the edit machine of Rewrites.tla (add / delete / update in place on one
           table) is walked edge by edge on ONE live filter through the real HTTP
           handlers, every query re-asked after every edit (A); random edit
           sequences on larger tables are validated by TraceRewrites.tla (B); the
           pipeline replay reaches same-length tables by updates in place on the
           live server.  A disagreement is reproduced by rehearsing the history on
           a fresh filter.
  case     every table with a CNAME entry is also replayed with the canonical names
           written in another letter case and the patterns in mixed case.
"""
import json
import os
import random
import re
import threading

import vlib

FPKG = "internal/filtering"
DPKG = "internal/dnsforward"
FILES = ["zz_verif_common_test.go", "zz_verif_c06_test.go"]

KEY_FORWARD = "canon-in-table-without-value-forwarded"
# Known deviation (as attributed by the harness / TraceRewrites from the spec's own
# "admit deviation" sets) -> finding key and description.
FINDINGS = {
    "fwd": (KEY_FORWARD,
            "a CNAME rewrite whose canonical name is itself matched by the table but has no value for the requested type "
            "is forwarded upstream for the canonical name instead of the empty successful answer"),
    "tie": ("most-specific-wildcard-keeps-one-entry",
            "of several entries of the most specific wildcard pattern only the first in table order is used: "
            "'*.h -> AAAA' before '*.h -> 1.2.3.4' gives an empty A answer (the other order 1.2.3.4), two addresses answer "
            "only the first"),
    "exact": ("exact-address-does-not-shadow-other-family-wildcard",
              "an exact address entry shadows only the wildcard entries for the requested type: with '*.e -> v6' and "
              "'x.e -> v4' the AAAA answer for x.e is the wildcard's"),
    "late": ("exception-on-canonical-name-cancels-cname",
             "a 'name to itself' / 'A' / 'AAAA' exception on the canonical name makes the whole request pass through: the "
             "upstream is asked for the alias and the CNAME entry is ignored"),
    "case": ("cname-value-case-not-folded",
             "the answer of a CNAME entry is not folded to lower case: 'Pass.h -> Pass.h' is not the self exception and "
             "'a -> Target.org' does not continue at the entry for target.org"),
    "err": ("upstream-error-question-not-restored",
            "when the upstream cannot be reached for the canonical name the SERVFAIL reply carries the canonical name in "
            "its question section instead of the client's question"),
}


# --------------------------------------------------------------------------- classification
def classify(rec):
    """Keys of a reproduced disagreement: the deviation label computed from the specification
    ("tie", "case+fwd", "all", ...) names the findings that explain it; [] if none does."""
    dev = rec.get("deviation") or ""
    if not dev or rec.get("kind") == "hang" or rec.get("hang"):
        return []
    keys = []
    for d in dev.split("+"):
        if d == "any":          # every deviation together
            keys += sorted(FINDINGS)
        elif d == "all":        # the three deviations of the table lookup together
            keys += ["exact", "late", "tie"]
        elif d in FINDINGS:
            keys.append(d)
        else:
            return []
    return sorted(set(keys))


class Tally:
    def __init__(self):
        self.known = 0
        self.by_dev = {}
        self.lock = threading.Lock()

    def count(self, devs):
        with self.lock:
            for d, n in (devs or {}).items():
                self.by_dev[d] = self.by_dev.get(d, 0) + n

    def report(self, ctx, rec, what):
        devs = classify(rec)
        with self.lock:
            if not devs:
                return ctx.disagreement(None, rec, what)
            # Every finding needed to explain the observation must be listed as open.
            res = [ctx.disagreement(FINDINGS[d][0], rec, FINDINGS[d][1] if len(devs) == 1 else what) for d in devs]
            if all(r == "known" for r in res):
                self.known += 1
                return "known"
            return "violation"


# --------------------------------------------------------------------------- helpers
def decode_sample(hdr, v):
    names = hdr["names"]

    def nm(i):
        return ".".join(names[i - 1]) if i else ""

    def ent(e):
        pat = ("*." if e[0] else "") + nm(e[1])
        ans = e[3] if e[2] in ("ip4", "ip6") else e[2] if e[2] in ("A", "AAAA") else nm(e[4])
        return pat + " -> " + ans
    return {"table": [ent(e) for e in v["t"]],
            "verdicts": [{"name": nm(q[0]), "qtype": q[1],
                          "admissible": [{"r": o[0], "canon": nm(o[1]), "ips": o[2], "upstream": o[3]} for o in q[2]]}
                         for q in v["v"][:6]]}


def out_class(o):
    if o[0] == "pass":
        return "pass"
    if o[3]:
        return "cname-upstream"
    if o[2] and o[1]:
        return "cname-addresses"
    if o[2]:
        return "addresses"
    if o[1]:
        return "cname-empty"
    return "empty"


def subst_cfg(ctx, cfg, name, **consts):
    """Copy specs/<cfg> to the work dir with constants replaced (Shard = n)."""
    s = open(os.path.join(vlib.SPECS, cfg)).read()
    for k, v in consts.items():
        s, n = re.subn(r"\b%s = \S+" % k, "%s = %s" % (k, v), s)
        if n != 1:
            raise vlib.Inconclusive("cannot substitute %s in %s" % (k, cfg))
    p = ctx.path(name)
    with open(p, "w") as fh:
        fh.write(s)
    return p


def split_vectors(vectors):
    hdrs = [v for v in vectors if v.get("hdr") == 1]
    if len(hdrs) != 1:
        raise vlib.Inconclusive("expected one header vector, got %d" % len(hdrs))
    return hdrs[0], [v for v in vectors if v.get("hdr") != 1]


def go_rows(ctx, pkg, run, env, name):
    vout = ctx.path(name)
    e = dict(env)
    e["VERIF_OUT"] = vout
    rc, out = ctx.go_test(pkg, FILES, run, env=e, timeout=1500)
    rows = vlib.read_ndjson(vout)
    return rc, out, rows


# --------------------------------------------------------------------------- the parts
def run_parallel(fs):
    """Run thunks concurrently; re-raise the first failure (Inconclusive last)."""
    errs = []

    def guard(f):
        def g():
            try:
                f()
            except BaseException as e:  # re-raised in the calling thread
                errs.append(e)
        return g
    ts = [threading.Thread(target=guard(f)) for f in fs]
    for t in ts:
        t.start()
    for t in ts:
        t.join()
    for e in errs:
        if not isinstance(e, vlib.Inconclusive):
            raise e
    if errs:
        raise errs[0]


def part_generate(ctx, res):
    """TLC: enumerate tables, check the statement's invariants, emit vectors."""
    groups = {}
    if ctx.quick:
        def genq(name, cfg, workers):
            def f():
                groups[name] = ctx.tlc("Rewrites", cfg, workers=workers, timeout=900, heap="4g")
            return f
        # (chain: the long-chain family, chains of up to 33 links into cycles, addresses or nothing)
        run_parallel([genq("quick", "Rewrites.quick.cfg", 5), genq("chain", "Rewrites.chain.cfg", 2)])
        order = ["quick", "chain"]
    else:
        def gen(name, cfg):
            def f():
                groups[name] = ctx.tlc("Rewrites", cfg, workers=4, timeout=2400, heap="4g")
            return f

        def perms():
            # Order-independence of the specification (the harness replays every
            # ordering of an entry-built table against one verdict table).
            ctx.tlc("Rewrites", "Rewrites.perm2.cfg", workers=2, timeout=1500, heap="3g")
            shard = 1 + random.Random(ctx.seed).randrange(7)
            ctx.tlc("Rewrites", subst_cfg(ctx, "Rewrites.perm.cfg", "perm_shard.cfg", Shard=shard), workers=2,
                    timeout=1500, heap="3g")
            res["perm_shard"] = shard
        run_parallel([gen("full", "Rewrites.full.cfg"), gen("three", "Rewrites.three.cfg"),
                      gen("chain", "Rewrites.chain.cfg"), perms])
        order = ["full", "three", "chain"]
    sets = []
    witnessed, clauses = set(), []
    for name in order:
        g = groups[name]
        hdr, vs = split_vectors(g["vectors"])
        if not vs:
            raise vlib.Inconclusive("no vectors from %s" % name)
        clauses = hdr["clauses"]
        for v in vs:
            witnessed.update(v["w"])
        sets.append((name, hdr, vs))
    missing = [c for c in clauses if c not in witnessed]
    if missing:
        raise vlib.Inconclusive("vacuous: antecedents never true: %s" % ", ".join(missing))
    res["sets"] = sets
    res["clauses_witnessed"] = sorted(witnessed)


def part_live(ctx, res):
    """TLC: termination (liveness, variant) on the step machine; action coverage."""
    cfg = "Rewrites.live.cfg" if ctx.quick else "Rewrites.live2.cfg"
    got = {}

    def main():
        got["r"] = ctx.tlc("Rewrites", cfg, workers=3, timeout=1800, coverage=True, heap="4g")

    def chain():
        # ... and on the long-chain family.
        got["rc"] = ctx.tlc("Rewrites", "Rewrites.chainlive.cfg", workers=2, timeout=900, heap="3g")
    run_parallel([main, chain])
    r, rc = got["r"], got["rc"]
    acts = dict((m[0], int(m[1])) for m in re.findall(r"^<(\w+) line \d+, col \d+ to line \d+, col \d+ of module Rewrites>: (\d+):\d+", r["out"], re.M))
    need = ["AddEntry", "PickShape", "PickFamily", "PickQuery", "ChaseStep"]
    dead = [a for a in need if acts.get(a, 0) == 0]
    if dead:
        raise vlib.Inconclusive("vacuous: actions never taken in %s: %s" % (cfg, dead))
    for x, name in ((r, cfg), (rc, "Rewrites.chainlive.cfg")):
        if "temporal properties" not in x["out"]:
            raise vlib.Inconclusive("TLC did not check the temporal property in %s" % name)
    if rc["distinct"] < 10000:
        raise vlib.Inconclusive("long-chain termination run is too small: %d states" % rc["distinct"])
    res["live"] = {"cfg": cfg, "states": r["distinct"], "actions": acts, "long_chain_states": rc["distinct"]}


def part_replay(ctx, res, tally):
    """Direction A: filtering level (everything) and pipeline level (sample)."""
    sets = res["sets"]
    vin = ctx.path("c06_vectors.ndjson")
    nvec = 0
    with open(vin, "w") as fh:
        for name, hdr, vs in sets:
            fh.write(json.dumps(hdr) + "\n")
            for v in vs:
                fh.write(json.dumps({"t": v["t"], "v": v["v"], "vc": v["vc"], "vk": v["vk"], "o": v["o"]}) + "\n")
                nvec += 1
    rc, out, rows = go_rows(ctx, FPKG, "^TestZZVerifC06Replay$", {"VERIF_IN": vin}, "c06_replay_out.ndjson")
    summ = [r for r in rows if r.get("kind") == "summary"]
    if rc != 0 or not summ:
        raise vlib.Inconclusive("C06 filtering replay did not complete:\n" + out[-3000:])
    summ = summ[0]
    for r in rows:
        if r.get("kind") == "bad":
            r["lvl"] = "filt"
            tally.report(ctx, r, "CheckHost(%s, %s) = %s is not admitted by the spec %s for table %s" % (
                r["query"], r["qt"], json.dumps(r["got"]), json.dumps(r["want"]), json.dumps(r["table"])))
        elif r.get("kind") == "hang":
            r["lvl"] = "filt"
            tally.report(ctx, r, "CheckHost(%s, %s) did not terminate within 20 s (alone, fresh filter) for table %s" % (
                r["query"], r["qt"], json.dumps(r["table"])))
    if summ.get("aborted") and not ctx.violations:
        raise vlib.Inconclusive("filtering replay aborted without a reproduced disagreement")
    if summ["vectors"] != nvec and not summ.get("aborted"):
        raise vlib.Inconclusive("filtering replay consumed %d of %d vectors" % (summ["vectors"], nvec))
    tally.count(summ.get("deviations"))
    res["replay"] = summ

    # Pipeline sample: stratified by the outcome classes of Serve, seeded.
    rng = random.Random(ctx.seed)
    want_n = 250 if ctx.quick else 2500
    pin = ctx.path("c06_pipe_vectors.ndjson")
    npipe = 0
    with open(pin, "w") as fh:
        for name, hdr, vs in sets:
            share = max(20, want_n * len(vs) // max(1, nvec))
            by_class = {}
            for i, v in enumerate(vs):
                for q in v["v"]:
                    for o in q[2]:
                        by_class.setdefault(out_class(o), []).append(i)
            pick = set()
            for c, idx in sorted(by_class.items()):
                pick.update(rng.sample(idx, min(len(idx), max(5, share // 8))))
            rest = [i for i in range(len(vs)) if i not in pick]
            if len(pick) < share:
                pick.update(rng.sample(rest, min(len(rest), share - len(pick))))
            fh.write(json.dumps(hdr) + "\n")
            for i in sorted(pick):
                v = vs[i]
                fh.write(json.dumps({"t": v["t"], "v": v["v"], "vc": v["vc"], "vk": v["vk"], "o": v["o"]}) + "\n")
                npipe += 1
    rc, out, rows = go_rows(ctx, DPKG, "^TestZZVerifC06Pipeline$", {"VERIF_IN": pin}, "c06_pipe_out.ndjson")
    psum = [r for r in rows if r.get("kind") == "summary"]
    if rc != 0 or not psum:
        raise vlib.Inconclusive("C06 pipeline replay did not complete:\n" + out[-3000:])
    psum = psum[0]
    if psum.get("setup_errors"):
        raise vlib.Inconclusive("pipeline replay could not set %d tables through the HTTP API" % psum["setup_errors"])
    for r in rows:
        if r.get("kind") == "bad":
            r["lvl"] = "pipe"
            tally.report(ctx, r, "query %s %s through the server: observed %s, spec admits %s, table %s" % (
                r["query"], r["qt"], json.dumps(r["got"]), json.dumps(r["expected"]), json.dumps(r["table"])))
        elif r.get("kind") == "hang":
            r["lvl"] = "pipe"
            tally.report(ctx, r, "query %s %s got no reply within 15 s (alone) for table %s" % (
                r["query"], r["qt"], json.dumps(r["table"])))
    if psum["hangs"] and not ctx.violations:
        raise vlib.Inconclusive("pipeline replay stopped on a hang that was not reproduced")
    if psum["flaky"] and not ctx.violations:
        raise vlib.Inconclusive("%d wrong answers of the live server were not reproduced when the transition was "
                                "rehearsed" % psum["flaky"])
    if psum["vectors"] != npipe and not psum["hangs"]:
        raise vlib.Inconclusive("pipeline replay consumed %d of %d vectors" % (psum["vectors"], npipe))
    tally.count(psum.get("deviations"))
    res["pipe"] = psum


def part_history(ctx, res, tally):
    """The edit machine: TLC emits every table reachable by add/delete/update and every
    edge; an edge-covering walk (seeded; a prefix of it in the quick tier) is performed on
    one live filter through the HTTP handlers."""
    g = ctx.tlc("Rewrites", "Rewrites.hist.cfg", workers=3, timeout=900, heap="3g")
    hdr = [v for v in g["vectors"] if v.get("hdr") == 1]
    states = [v for v in g["vectors"] if v.get("k") == "state"]
    edges = [v for v in g["vectors"] if v.get("k") == "edge"]
    if len(hdr) != 1 or not states or not edges:
        raise vlib.Inconclusive("edit machine: %d headers, %d states, %d edges" % (len(hdr), len(states), len(edges)))
    acts = {e["act"] for e in edges}
    if acts != {"add", "del", "upd", "save"} or all(e["ok"] for e in edges):
        raise vlib.Inconclusive("vacuous edit machine: acts %s" % sorted(acts))
    key = lambda t: json.dumps(t)
    ids = {key(st["t"]): i + 1 for i, st in enumerate(states)}
    if key([]) not in ids:
        raise vlib.Inconclusive("the empty table is not described")
    out_edges = {}
    for i, e in enumerate(edges):
        if key(e["dst"]) not in ids or key(e["src"]) not in ids:
            raise vlib.Inconclusive("edge to an undescribed table")
        out_edges.setdefault(key(e["src"]), []).append(i)
    rng = random.Random(ctx.seed)
    for lst in out_edges.values():
        rng.shuffle(lst)
    budget = 2500 if ctx.quick else 10 ** 9
    covered = set()
    ptr = dict((k, 0) for k in out_edges)
    walk = []
    cur = key([])
    walk.append({"k": "reset"})
    since = 0

    def uncovered(node):
        lst = out_edges.get(node, [])
        while ptr[node] < len(lst) and lst[ptr[node]] in covered:
            ptr[node] += 1
        return lst[ptr[node]] if ptr[node] < len(lst) else None

    def path_to_uncovered(node):
        seen = {node: None}
        queue = [node]
        while queue:
            nxt = []
            for n in queue:
                for ei in out_edges.get(n, []):
                    d = key(edges[ei]["dst"])
                    if d in seen:
                        continue
                    seen[d] = (n, ei)
                    if uncovered(d) is not None:
                        path = []
                        while seen[d] is not None:
                            n0, e0 = seen[d]
                            path.append(e0)
                            d = n0
                        return path[::-1]
                    nxt.append(d)
            queue = nxt
        return None

    steps = 0
    while len(covered) < len(edges) and steps < budget:
        ei = uncovered(cur)
        todo = [ei] if ei is not None else path_to_uncovered(cur)
        if todo is None:
            # Nothing reachable from here (cannot happen: every table can be emptied).
            cur = key([])
            walk.append({"k": "reset"})
            since = 0
            if uncovered(cur) is None and path_to_uncovered(cur) is None:
                break
            continue
        for ei in todo:
            e = edges[ei]
            covered.add(ei)
            walk.append({"k": "step", "act": e["act"], "a": e["a"], "b": e["b"], "ok": e["ok"], "dst": ids[key(e["dst"])]})
            cur = key(e["dst"])
            steps += 1
            since += 1
        if since >= 150 + rng.randrange(100):
            # A new filter from time to time keeps the histories to rehearse short.
            cur = key([])
            walk.append({"k": "reset"})
            since = 0
    hin = ctx.path("c06_hist_in.ndjson")
    with open(hin, "w") as fh:
        fh.write(json.dumps(hdr[0]) + "\n")
        for st in states:
            fh.write(json.dumps({"k": "state", "id": ids[key(st["t"])], "t": st["t"], "v": st["v"], "vk": st["vk"]}) + "\n")
        for w in walk:
            fh.write(json.dumps(w) + "\n")
    rc, out, rows = go_rows(ctx, FPKG, "^TestZZVerifC06History$", {"VERIF_IN": hin}, "c06_hist_out.ndjson")
    summ = [r for r in rows if r.get("kind") == "summary"]
    if rc != 0 or not summ:
        raise vlib.Inconclusive("C06 history walk did not complete:\n" + out[-3000:])
    summ = summ[0]
    for r in rows:
        if r.get("kind") == "setup":
            raise vlib.Inconclusive("the rewrite API does not behave like the edit machine: %s (%s)" % (r["err"], r["step"]))
    for r in rows:
        if r.get("kind") in ("bad", "hang"):
            r["lvl"] = "hist"
            tally.report(ctx, r, "after the edits %s on one live filter CheckHost(%s, %s) = %s is not admitted by the spec %s "
                         "for the current table %s" % (json.dumps(r["history"][-4:]), r["query"], r["qt"], json.dumps(r["got"]),
                                                      json.dumps(r["want"]), json.dumps(r["table"])))
    tally.count(summ.get("deviations"))
    if summ["flaky"] and not ctx.violations:
        raise vlib.Inconclusive("%d wrong answers of the live filter were not reproduced by rehearsing the history" % summ["flaky"])
    if summ["steps"] != steps and not summ["aborted"]:
        raise vlib.Inconclusive("history walk performed %d of %d steps" % (summ["steps"], steps))
    if summ["aborted"] and not ctx.violations:
        raise vlib.Inconclusive("history walk aborted without a reproduced disagreement")
    res["hist"] = {"tables": len(states), "edges": len(edges), "edges_walked": len(covered), "steps": summ["steps"],
                   "filters": summ["resets"], "checkhost_calls": summ["evals"], "flaky": summ["flaky"],
                   "hangs": summ["hangs"], "exhaustive": len(covered) == len(edges)}


def part_trace(ctx, res, tally):
    """Direction B at both levels."""
    rc, out, frows = go_rows(ctx, FPKG, "^TestZZVerifC06Trace$", {}, "c06_trace_f.ndjson")
    if rc != 0 or not frows:
        raise vlib.Inconclusive("C06 filtering trace driver did not complete:\n" + out[-3000:])
    rc, out, prows = go_rows(ctx, DPKG, "^TestZZVerifC06PipeTrace$", {}, "c06_trace_p.ndjson")
    if rc != 0 or not prows:
        raise vlib.Inconclusive("C06 pipeline trace driver did not complete:\n" + out[-3000:])
    rc, out, hrows = go_rows(ctx, FPKG, "^TestZZVerifC06HistTrace$", {}, "c06_trace_h.ndjson")
    if rc != 0 or not hrows:
        raise vlib.Inconclusive("C06 history trace driver did not complete:\n" + out[-3000:])
    if not {"add", "del", "upd", "save"} <= {r["ev"] for r in hrows} or all(r.get("ok", True) for r in hrows):
        raise vlib.Inconclusive("vacuous history trace")
    rows = frows + prows + hrows
    tpath = ctx.path("c06_trace.ndjson")
    vlib.write_ndjson(tpath, [{k: r[k] for k in ("lvl", "ev", "a", "b", "ok", "list", "qs") if k in r} if r["lvl"] == "hist"
                              else dict({"lvl": r["lvl"], "tab": r["tab"], "qs": r["qs"]},
                                        **({"upm": r["upm"]} if r["lvl"] == "pipe" else {})) for r in rows])
    r = ctx.tlc("TraceRewrites", "TraceRewrites.cfg", workers=1, timeout=1500, heap="3g",
                extra_files=[(tpath, "trace.ndjson")])
    if not r["vectors"]:
        raise vlib.Inconclusive("trace spec produced no verdict")
    verdict = r["vectors"][-1]
    if verdict["n"] != len(rows):
        raise vlib.Inconclusive("trace spec consumed %s of %d lines" % (verdict["n"], len(rows)))
    nq = sum(len(x["qs"]) for x in rows)
    rejected = verdict["bad"]
    # Reproduce every rejected observation alone before reporting it.
    probes = {"filt": [], "pipe": [], "hist": []}
    for b in rejected:
        ln = rows[b["l"] - 1]
        if b["q"] == 0:
            raise vlib.Inconclusive("the rewrite API does not behave like TabAdd/TabDelete/TabUpdate at trace line %d: %s, "
                                    "succeeded=%s, listed %s" % (b["l"], ln.get("text"), ln.get("ok"), json.dumps(ln.get("list"))))
        x = ln["qs"][b["q"] - 1]
        probes[ln["lvl"]].append((b, ln, x))
    reproduced = not_reproduced = 0
    for lvl, lst in probes.items():
        if not lst:
            continue
        pin = ctx.path("c06_probe_%s.ndjson" % lvl)
        if lvl == "hist":
            # Rehearse the life of the filter up to the rejected observation: the edits since the
            # last reset, each followed by the queries that were asked after it.
            pl = []
            for b, ln, x in lst:
                i = b["l"] - 1
                first = max(j for j in range(i + 1) if rows[j]["lvl"] == "hist" and rows[j]["ev"] == "reset")
                steps = [{"act": r["ev"], "a": r["a"], "b": r["b"], "qs": [[q["h"], q["qt"]] for q in r["qs"]]}
                         for r in rows[first + 1:i + 1]]
                ln["tab"] = ln["list"]
                ln["table"] = [r.get("text") for r in rows[first + 1:i + 1]][-6:]
                pl.append({"steps": steps, "h": x["h"], "qt": x["qt"], "query": x["query"], "expect": b["exp"]})
            vlib.write_ndjson(pin, pl)
            for (b, ln, x), pr_in in zip(lst, pl):
                ln["_steps"] = pr_in["steps"]
        else:
            # (pipe: the transition from the table the live server had before is rehearsed too)
            vlib.write_ndjson(pin, [dict({"tab": ln["tab"], "h": x["h"], "qt": x["qt"], "query": x["query"], "expect": b["exp"],
                                          "epoch": ln.get("epoch", 0)},
                                         **({"prev_table": ln["prev_table"], "qs": ln.get("prev_qs", [])}
                                            if ln.get("prev_table") is not None else {}))
                                    for b, ln, x in lst])
        pkg, run = {"filt": (FPKG, "^TestZZVerifC06Probe$"), "pipe": (DPKG, "^TestZZVerifC06PipeProbe$"),
                    "hist": (FPKG, "^TestZZVerifC06HistProbe$")}[lvl]
        rc, out, prs = go_rows(ctx, pkg, run, {"VERIF_IN": pin}, "c06_probe_%s_out.ndjson" % lvl)
        if rc != 0 or len(prs) != len(lst):
            raise vlib.Inconclusive("C06 probe (%s) did not complete:\n%s" % (lvl, out[-3000:]))
        if lvl == "pipe" and any(pr.get("admissible") for pr in prs):
            # Second stage for what the last transition alone does not reproduce: the whole life of
            # the live server up to that line (every earlier table and its queries) is rehearsed.
            again = [k for k, pr in enumerate(prs) if pr.get("admissible")]
            pin2 = ctx.path("c06_probe_pipe_life.ndjson")
            pl = []
            for k in again:
                b, ln, x = lst[k]
                life = [{"table": r["table"], "qs": [[q["h"], q["qt"]] for q in r["qs"]]}
                        for r in rows[:b["l"] - 1] if r["lvl"] == "pipe"]
                pl.append({"tab": ln["tab"], "h": x["h"], "qt": x["qt"], "query": x["query"], "expect": b["exp"], "life": life,
                           "epoch": ln.get("epoch", 0)})
            vlib.write_ndjson(pin2, pl)
            rc, out, prs2 = go_rows(ctx, pkg, run, {"VERIF_IN": pin2}, "c06_probe_pipe_life_out.ndjson")
            if rc != 0 or len(prs2) != len(again):
                raise vlib.Inconclusive("C06 probe (pipe, whole life) did not complete:\n%s" % out[-3000:])
            for k, pr2 in zip(again, prs2):
                prs[k] = pr2
        for (b, ln, x), pr in zip(lst, prs):
            if pr.get("admissible") or pr.get("skipped"):
                not_reproduced += 1
                continue
            reproduced += 1
            dv = b.get("dev") or {}
            rec = {"lvl": lvl, "seed": ctx.seed, "deviation": "+".join(sorted(dv.get("devs", []))) if dv.get("found") else "",
                   "tab": ln["tab"], "table": ln["table"],
                   "h": x["h"], "qt": x["qt"], "query": x["query"],
                   "expect": b["exp"], "expected": pr.get("expected") or b["exp"], "got": pr.get("got"),
                   "hang": pr.get("hang", False),
                   "trace_observation": x}
            if lvl == "hist":
                rec["steps"] = ln.get("_steps")
            if ln.get("prev_table") is not None:
                rec["prev_table"], rec["qs"] = ln["prev_table"], ln.get("prev_qs", [])
            if ln.get("epoch") is not None:
                rec["epoch"] = ln["epoch"]
            tally.report(ctx, rec, "trace (%s): %s %s observed %s, spec admits %s, table %s" % (
                lvl, x["query"], x["qt"], json.dumps(pr.get("got")), json.dumps(pr.get("expected")), json.dumps(ln["table"])))
    if not_reproduced:
        raise vlib.Inconclusive("%d rejected trace observations were not reproduced alone" % not_reproduced)
    res["trace"] = {"lines": len(rows), "queries": nq, "rejected": len(rejected), "reproduced": reproduced,
                    "filt_lines": len(frows), "pipe_lines": len(prows), "hist_lines": len(hrows),
                    "hist_edits": sum(1 for r in hrows if r["ev"] != "reset"),
                    "mixed_case_answers": sum(1 for r in frows + prows for e in r["tab"] if e.get("mc")),
                    "sample": {"table": rows[0]["table"], "first_queries": rows[0]["qs"][:3]}}


# --------------------------------------------------------------------------- entry points
def run(ctx):
    res = {}
    tally = Tally()
    # Independent strands run concurrently: (generate -> replay), termination, traces.
    def strand_a():
        part_generate(ctx, res)
        part_replay(ctx, res, tally)

    try:
        run_parallel([strand_a, lambda: part_live(ctx, res), lambda: part_history(ctx, res, tally),
                      lambda: part_trace(ctx, res, tally)])
    except vlib.Inconclusive as e:
        if not ctx.violations:
            raise
        # A reproduced disagreement stands, whatever stopped another strand.
        ctx.log("a strand was inconclusive (%s); reporting the reproduced disagreements" % str(e)[:300])
        return ctx.finish("model_checking", {
            "traces_validated_against_impl": 0, "evaluations": 0, "distinct_nontrivial": 0, "exhaustive": False,
            "rule": "run cut short: a reproduced disagreement is reported although another strand was inconclusive",
            "samples": [], "incomplete": str(e)[:500], "known_finding_disagreements": tally.known})

    # Vacuity of the pipeline sample (only meaningful when nothing is reported:
    # a disagreement can be the very reason a class was not observed).
    # cname-empty is exactly the open finding: it is never observed while that is open.
    seen = {c for c, n in res["pipe"]["classes"].items() if n}
    # (cname-upstream:error is the open finding about error replies, like cname-empty)
    need = {"cname-addresses", "addresses", "empty"} | {k + ":" + m for k in ("pass", "cname-upstream")
                                                         for m in ("answer", "nodata", "nxdomain", "servfail")} | {"pass:error"}
    if not ctx.violations and not need <= seen:
        raise vlib.Inconclusive("pipeline sample did not exercise: %s" % sorted(need - seen))

    sets = res["sets"]
    nvec = sum(len(vs) for _, _, vs in sets)
    nontrivial = sum(len(v["v"]) for _, _, vs in sets for v in vs)
    multi = sum(1 for _, _, vs in sets for v in vs for q in v["v"] if len(q[2]) > 1)
    rp, pp, tr, hi = res["replay"], res["pipe"], res["trace"], res["hist"]
    samples = []
    for name, hdr, vs in sets:
        samples.append(decode_sample(hdr, vs[len(vs) // 3]))
        samples.append(decode_sample(hdr, vs[-1]))
    samples.append({"trace_line": tr.pop("sample")})
    cov = {
        "traces_validated_against_impl": rp["orderings"] + pp["orderings"] + tr["lines"] + hi["filters"],
        "evaluations": rp["evals"] + pp["evals"] + tr["queries"] + hi["checkhost_calls"],
        "distinct_nontrivial": nontrivial,
        "rule": "one vector per enumerated table with the admissible outcomes of every query (name x {A, AAAA, TXT}); "
                "non-trivial = (table, query) whose name is matched by the table (the others must pass through and are "
                "checked too); every table is replayed in every ordering at the filtering level, a stratified seeded "
                "sample through the real DNS server; trace lines are random 10-20 entry tables with 30-40 queries each",
        "vectors_generated": nvec, "vectors_replayed_filtering": rp["vectors"], "table_orderings_replayed": rp["orderings"],
        "checkhost_calls": rp["evals"], "vectors_replayed_pipeline": pp["vectors"], "dns_queries": pp["evals"],
        "pipeline_classes": pp["classes"], "verdicts_with_several_admissible_outcomes": multi,
        "trace_lines": tr["lines"], "trace_queries": tr["queries"], "trace_rejected": tr["rejected"],
        "trace_rejected_reproduced": tr["reproduced"],
        "flaky": rp["flaky"] + pp["flaky"] + hi["flaky"], "hangs": rp["hangs"] + pp["hangs"] + hi["hangs"],
        "history_walk": hi, "pipeline_tables_reached_by_update": pp.get("tables_reached_by_update"),
        "trace_detail": {k: tr[k] for k in ("filt_lines", "pipe_lines", "hist_lines", "hist_edits", "mixed_case_answers")},
        "known_finding_disagreements": tally.known + sum(tally.by_dev.values()),
        "known_finding_disagreements_by_deviation": tally.by_dev, "truncated_by_known_finding": 0,
        "clauses_witnessed": res["clauses_witnessed"], "termination": res["live"],
        "universes": [name for name, _, _ in sets],
        "exhaustive": not ctx.quick, "samples": samples,
    }
    if not ctx.quick:
        cov["order_independence_shard"] = res.get("perm_shard")
    return ctx.finish("model_checking", cov, assumptions=[
        "TLC; conc()/abs() of the two zz_verif_c06_test.go files (label dictionary, seeded addresses, request-side "
        "letter case); the pipeline projection (leading CNAME, table addresses, records recognised as the mock "
        "upstream's)",
        "the specification is independent of the order of the table (TLC: PermutationInvariant) so one verdict table "
        "stands for every ordering replayed",
        "patterns are written in seeded mixed case (the code normalises them); canonical names are written in lower "
        "case and, in a second pass over every table with a CNAME entry and in a quarter of the trace entries, with "
        "every label in another case, where both the folded and the verbatim reading are admitted (SILENT (case)); "
        "keywords and addresses keep their spelling",
        "the outcome of a query depends on the current table only: edit histories are walked on one live filter and "
        "every disagreement is reproduced by rehearsing the history on a fresh one",
        "where the statement is silent (ties, meaning of 'kind', outcome of cycles, exception reached through a CNAME) "
        "the specification admits several outcomes: see the SILENT marks in RewritesCore.tla",
    ])


def replay(ctx, path):
    rec = json.load(open(path))["record"]
    lvl = rec.get("lvl", "filt")
    if lvl == "hist":
        return replay_hist(ctx, rec)
    tab = rec["tab"]
    if "order" in rec:
        tab = [tab[i] for i in rec["order"]]
    probe = {"tab": tab, "h": rec["h"], "qt": rec["qt"], "query": rec.get("query", "")}
    if rec.get("prev_table") is not None:
        probe["prev_table"], probe["qs"] = rec["prev_table"], rec.get("qs", [])
    if rec.get("epoch") is not None:
        probe["epoch"] = rec["epoch"]
    if rec.get("seed") is not None:
        # The mock upstream's behaviour per name and the concrete addresses are seeded.
        ctx.seed = rec["seed"]
    if lvl == "pipe" and "expect" not in rec:
        probe["expected"] = rec["expected"]
    elif "want" in rec:
        probe["want"] = rec["want"]
    else:
        probe["expect"] = rec["expect"]
    pin = ctx.path("c06_replay_in.ndjson")
    vlib.write_ndjson(pin, [probe])
    pkg, run_ = (FPKG, "^TestZZVerifC06Probe$") if lvl == "filt" else (DPKG, "^TestZZVerifC06PipeProbe$")
    rc, out, prs = go_rows(ctx, pkg, run_, {"VERIF_IN": pin}, "c06_replay_out.ndjson")
    if rc != 0 or len(prs) != 1:
        raise vlib.Inconclusive("C06 probe did not complete:\n" + out[-3000:])
    pr = prs[0]
    print(json.dumps({"table": rec.get("table"), "query": [rec.get("query"), rec["qt"]],
                      "expected": pr.get("expected"), "observed": pr.get("got"),
                      "admissible": pr.get("admissible")}, indent=1))
    return 0 if pr.get("admissible") else 1


def replay_hist(ctx, rec):
    probe = {"steps": rec["steps"], "qs": rec.get("qs", []), "h": rec["h"], "qt": rec["qt"], "query": rec.get("query", "")}
    if "want" in rec:
        probe["want"] = rec["want"]
    else:
        probe["expect"] = rec["expect"]
    pin = ctx.path("c06_replay_in.ndjson")
    vlib.write_ndjson(pin, [probe])
    rc, out, prs = go_rows(ctx, FPKG, "^TestZZVerifC06HistProbe$", {"VERIF_IN": pin}, "c06_replay_out.ndjson")
    if rc != 0 or len(prs) != 1:
        raise vlib.Inconclusive("C06 history probe did not complete:\n" + out[-3000:])
    pr = prs[0]
    print(json.dumps({"history": rec.get("history") or rec.get("table"), "query": [rec.get("query"), rec["qt"]],
                      "expected": pr.get("expected"), "observed": pr.get("got"),
                      "admissible": pr.get("admissible")}, indent=1))
    return 0 if pr.get("admissible") else 1
