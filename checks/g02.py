"""G02 -- $dnsrewrite rules, system-hosts rewrites and their precedence.

Spec: specs/DnsRewriteCore.tla (decision procedure Outcomes / Serve), specs/DnsRewrite.tla
(universe, enumeration, clauses of the statement, reconfiguration machine),
specs/TraceDnsRewrite.tla.  Statement: notes/G02.md.

  half 1   TLC checks the clauses of the statement as invariants of every enumerated
           configuration x question; a clause whose antecedent was never true makes the
           run INCONCLUSIVE (vacuity).
  A        every emitted configuration is rendered into real rule text / hosts file /
           rewrite table and replayed into the real filtering.DNSFilter (CheckHost,
           membership in the admissible set) on long-lived filters that are reconfigured
           through the entry points of a running server; a stratified sample goes through
           a real dnsforward.Server over UDP with a recording mock upstream.
  history  the reconfiguration machine (set_rules / hosts file change / protection /
           legacy table) is walked edge by edge on ONE live filter.
  B        random configurations from a larger universe on a live filter and a live
           server, validated by TraceDnsRewrite.tla; a rejected line is re-executed alone.
"""
import json
import os
import random
import re
import threading

import vlib

FPKG = "internal/filtering"
DPKG = "internal/dnsforward"
FILES = ["zz_verif_common_test.go", "zz_verif_g02_test.go"]

KEY_SKIP = "exception-after-exception-becomes-rewrite"
WHAT_SKIP = ("when two $dnsrewrite exception rules (@@...$dnsrewrite[=value]) follow each other in the list of rules "
             "matching a request, the second one is not applied and is then used as a REWRITING rule: its value is "
             "answered (or an empty NOERROR response for '@@...$dnsrewrite'), although no rewriting rule says so")

# Clauses whose antecedent must have been true at least once.
CLAUSES = ["FilteringOff", "LegacyFirst", "HostsSecond", "HostsOff", "RewriteBeatsOrdinary", "DisableAll", "DisableOne",
           "ImportantSurvives", "ProtectionOff", "SelfCname", "Determinate", "Silent", "KeywordEmpty",
           "OnlyQuestionType", "NoData", "HostsOtherFamily", "HostsPTR"]

LOCK = threading.Lock()


def classify(rec):
    """Narrow: the observed outcome is one that DnsRewriteCore!SkipOutcomes derives for this
    configuration and question (>= 2 applying exceptions, one of them used as a rewrite)."""
    return KEY_SKIP if rec.get("kf") else None


def report(ctx, rec, what):
    key = classify(rec)
    with LOCK:
        return ctx.disagreement(key, rec, WHAT_SKIP if key else what)


def out_class(o):
    if o["r"] != "rule":
        return o["r"] + ("-empty" if o["r"] in ("hosts", "legacy") and not o["vals"] and not o["canon"] else "")
    if o["canon"]:
        return "rule-cname"
    if o["rcode"] not in ("", "NOERROR"):
        return "rule-" + o["rcode"].lower()
    return "rule-records" if o["vals"] else "rule-nodata"


def run_shard(ctx, vectors, idx, results, test="TestZZVerifG02Replay", pkg=FPKG, env=None):
    vin, vout = ctx.path("g02_in_%s_%d.ndjson" % (test, idx)), ctx.path("g02_out_%s_%d.ndjson" % (test, idx))
    vlib.write_ndjson(vin, vectors)
    e = {"VERIF_IN": vin, "VERIF_OUT": vout, "GOMAXPROCS": "1"}
    e.update(env or {})
    try:
        # a distinct -run pattern per shard: vlib names the overlay file after it
        rc, out = ctx.go_test(pkg, FILES, "^%s$|^zzshard%d$" % (test, idx), env=e, timeout=1500)
    except Exception as ex:  # noqa: BLE001
        results[idx] = ex
        return
    rows = vlib.read_ndjson(vout)
    summ = [r for r in rows if r.get("kind") == "summary"]
    if rc != 0 or not summ:
        results[idx] = vlib.Inconclusive("G02 %s shard %d did not complete:\n%s" % (test, idx, out[-3000:]))
        return
    results[idx] = (rows, summ[0])


def replay_filter(ctx, cfgs, shards):
    # Seeded order; blocks of one family keep the reconfigurations of a live filter small
    # and frequent (the harness streams the vectors in this order).
    order = list(cfgs)
    random.Random(ctx.seed).shuffle(order)
    order.sort(key=lambda v: v["fam"])
    parts = [order[i::shards] for i in range(shards)]
    results = [None] * shards
    ths = [threading.Thread(target=run_shard, args=(ctx, parts[i], i, results)) for i in range(shards)]
    for t in ths:
        t.start()
    for t in ths:
        t.join()
    rows, summs = [], []
    for r in results:
        if isinstance(r, Exception):
            raise r if isinstance(r, vlib.Inconclusive) else vlib.Inconclusive(str(r))
        rows += r[0]
        summs.append(r[1])
    return rows, summs


def strip_trace(rows):
    """TLC's JSON reader does not take null: keep only what the trace spec reads."""
    out = []
    for r in rows:
        if r["k"] == "cfg":
            out.append({"k": "cfg", "cfg": r["cfg"]})
        elif r["k"] == "q":
            out.append({"k": "q", "q": r["q"], "out": {k: r["out"][k] for k in ("r", "rcode", "canon", "vals")}})
        elif r["k"] == "p":
            out.append({"k": "p", "q": r["q"], "m": r["m"], "obs": r["obs"]})
    return out


def validate_trace(ctx, rows, name, cfg="TraceDnsRewrite.cfg"):
    """cfg: concurrent validations use differently named (identical) configuration files,
    because vlib names the scratch directory of a TLC run after module and configuration."""
    p = ctx.path(name)
    vlib.write_ndjson(p, strip_trace(rows))
    r = ctx.tlc("TraceDnsRewrite", cfg, workers=1, extra_files=[(p, "trace.ndjson")], timeout=900, heap="3g")
    if not r["vectors"]:
        raise vlib.Inconclusive("trace spec produced no verdict")
    verdict = r["vectors"][-1]
    if verdict["n"] != len(rows):
        raise vlib.Inconclusive("trace spec consumed %s of %d lines" % (verdict["n"], len(rows)))
    return verdict["bad"], set(verdict["kf"])


def pipe_class(r):
    """Class of a pipeline observation (for the vacuity check of the pipeline strand)."""
    o = r["obs"]
    if o["cname"]:
        return "cname-" + r["m"] if o["ask"] else "cname-local"
    if o["ask"]:
        return "forwarded-" + r["m"]
    if o["rcode"] in ("NXDOMAIN", "REFUSED", "SERVFAIL"):
        return "local-" + o["rcode"].lower()
    if r["q"]["qt"] == "PTR" and o["vals"]:
        return "local-ptr"
    return "local-records" if o["vals"] else "local-empty"


def run_pipe(ctx, test, name, env, vectors=None):
    """Run a pipeline driver; returns its trace rows (summary removed) and the summary."""
    e = {"GOMAXPROCS": "2"}
    e.update(env)
    vout = ctx.path(name + "_out.ndjson")
    e["VERIF_OUT"] = vout
    if vectors is not None:
        vin = ctx.path(name + "_in.ndjson")
        vlib.write_ndjson(vin, vectors)
        e["VERIF_IN"] = vin
    rc, out = ctx.go_test(DPKG, FILES, "^%s$|^zz%s$" % (test, name), env=e, timeout=1200)
    rows = vlib.read_ndjson(vout)
    summ = [r for r in rows if r.get("k") == "summary"]
    if rc != 0 or not summ:
        raise vlib.Inconclusive("G02 %s (%s) did not complete:\n%s" % (test, name, out[-3000:]))
    return [r for r in rows if r.get("k") != "summary"], summ[0]


def same_obs(a, b):
    norm = lambda o: json.dumps({k: (sorted(v) if k == "vals" else v) for k, v in o.items() if k != "up"}, sort_keys=True)  # noqa: E731
    return norm(a) == norm(b)


def pipe_reexec(ctx, rows, bad, kf, name):
    """Re-execute rejected pipeline lines alone (fresh server, same spelling, same upstream
    behaviour), twice each, and validate them again.  A line counts as reproduced only if both
    re-executions make the very same observation as the original and TLC rejects it again.
    What is not reproduced is tried once more (a loaded machine has produced stray SERVFAIL
    replies); returns the reproduced records and the number of lines left unreproduced."""
    recs = []
    # lines that the known finding does not explain first: the cap must never hide them
    for i in sorted(bad, key=lambda i: (i in kf, i))[:150]:
        line, c = rows[i - 1], cfg_before(rows, i)
        recs.append({"cfg": c["cfg"], "q": line["q"], "salt": c["salt"], "epoch": c["epoch"], "text": c.get("text"),
                     "line": i, "got": line["obs"], "m": line["m"], "kf": i in kf, "lvl": "pipe"})
    out_recs, todo = [], recs
    for attempt in range(2):
        if not todo:
            break
        pin, pout = ctx.path("%s_probe%d_in.ndjson" % (name, attempt)), ctx.path("%s_probe%d_out.ndjson" % (name, attempt))
        vlib.write_ndjson(pin, todo)
        rc, out = ctx.go_test(DPKG, FILES, "^TestZZVerifG02PipeProbe$|^zz%s%d$" % (name, attempt), env={
            "VERIF_IN": pin, "VERIF_OUT": pout, "GOMAXPROCS": "2"}, timeout=900)
        prows = vlib.read_ndjson(pout)
        if rc != 0 or len(prows) != len(todo):
            raise vlib.Inconclusive("G02 pipeline probe did not complete:\n" + out[-2000:])
        again = []
        for rec, pr in zip(todo, prows):
            again.append({"k": "cfg", "cfg": rec["cfg"]})
            again.append({"k": "p", "q": rec["q"], "m": pr["m"], "obs": pr["obs"]})
        bad2, kf2 = validate_trace(ctx, again, "%s_probe%d_tlc.ndjson" % (name, attempt),
                                   cfg="TraceDnsRewrite.%s.cfg" % ("pprobe" if name == "g02_pipe" else "probe"))
        rest = []
        for k, rec in enumerate(todo):
            j = 2 * k + 2
            same = same_obs(rec["got"], prows[k]["obs"]) and same_obs(rec["got"], prows[k]["obs2"])
            if j in bad2 and same:
                rec["got2"] = prows[k]["obs"]
                rec["kf"] = rec["kf"] and j in kf2
                out_recs.append(rec)
            else:
                rest.append(rec)
        todo = rest
    return out_recs, len(todo)


def cfg_before(rows, i):
    """The configuration line in force at trace line i (1-based)."""
    for j in range(i - 1, -1, -1):
        if rows[j]["k"] == "cfg":
            return rows[j]
    return None


def run(ctx):
    rng = random.Random(ctx.seed)
    covres = {}
    if ctx.quick:
        gen = ctx.tlc("DnsRewrite", "DnsRewrite.quick.cfg", workers=6, timeout=900, heap="6g", coverage=True)
        covres["out"] = gen["out"]
        covth = None
    else:
        # the action-coverage run (vacuity) uses the reduced universe, next to the full enumeration
        def cov_run():
            try:
                covres["out"] = ctx.tlc("DnsRewrite", "DnsRewrite.cov.cfg", workers=3, timeout=900, heap="4g", coverage=True)["out"]
            except Exception as ex:  # noqa: BLE001
                covres["err"] = ex
        covth = threading.Thread(target=cov_run)
        covth.start()
        gen = ctx.tlc("DnsRewrite", "DnsRewrite.full.cfg", workers=6, timeout=900, heap="6g")
        covth.join()
        if "err" in covres:
            raise covres["err"] if isinstance(covres["err"], vlib.Inconclusive) else vlib.Inconclusive(str(covres["err"]))
    taken = {m.group(1): int(m.group(2)) for m in re.finditer(
        r"^<(\w+) line \d+, col \d+ to line \d+, col \d+ of module DnsRewrite>: (\d+):\d+$", covres["out"], re.M)}
    never = [a for a in ("Root", "MidComb", "MidMod", "MidPrec", "MidHosts", "MidHist") if not taken.get(a)]
    if never:
        raise vlib.Inconclusive("vacuous: action never taken: %s (coverage %s)" % (", ".join(never), taken))
    vectors = gen["vectors"]
    for i, v in enumerate(vectors):
        v["id"] = i
    cfgs = [v for v in vectors if v["kind"] == "cfg" and v["fam"] != "hist"]
    hist = [v for v in vectors if v["kind"] == "edge" or v.get("fam") == "hist"]
    if len(cfgs) < 3000 or len(hist) < 500:
        raise vlib.Inconclusive("too few vectors: %d configurations, %d machine vectors" % (len(cfgs), len(hist)))

    # Vacuity: every clause of the statement was exercised.
    wit = {}
    for v in vectors:
        if v["kind"] == "cfg":
            for w in v["wit"]:
                wit[w] = wit.get(w, 0) + 1
    missing = [c for c in CLAUSES if not wit.get(c)]
    if missing:
        raise vlib.Inconclusive("vacuous: clause antecedent never true: %s" % ", ".join(missing))
    fams = sorted({v["fam"] for v in cfgs})
    if fams != ["comb", "hosts", "mod", "prec"]:
        raise vlib.Inconclusive("families missing: %s" % fams)

    # ---------------------------------------------------------------- A, filtering level
    parts = {}
    th_results = {}

    def part_filter():
        rows, summs = replay_filter(ctx, cfgs, 4 if ctx.quick else 6)
        parts["filter"] = (rows, summs)

    def part_hist():
        res = [None]
        env = {} if not ctx.quick else {"VERIF_G02_HIST_STEPS": "450"}
        run_shard(ctx, hist, 0, res, test="TestZZVerifG02Hist", env=env)
        parts["hist"] = res[0]

    def part_ftrace():
        tout = ctx.path("g02_ftrace.ndjson")
        rc, out = ctx.go_test(FPKG, FILES, "^TestZZVerifG02Trace$", env={
            "VERIF_OUT": tout, "GOMAXPROCS": "1", "VERIF_G02_TRACE_CFGS": "200" if ctx.quick else "1200"}, timeout=900)
        rows = vlib.read_ndjson(tout)
        if rc != 0 or len(rows) < 100:
            parts["ftrace"] = vlib.Inconclusive("G02 trace driver did not complete:\n" + out[-3000:])
            return
        try:
            parts["ftrace"] = (rows, validate_trace(ctx, rows, "g02_ftrace_tlc.ndjson"))
        except vlib.Inconclusive as ex:
            parts["ftrace"] = ex

    def part_pipe():
        # a seeded stratified sample of the enumerated configurations through the real server
        order = list(cfgs)
        random.Random(ctx.seed + 1).shuffle(order)
        order.sort(key=lambda v: v["fam"])
        step = 4 if ctx.quick else 7
        sel = order[ctx.seed % step::step]
        nsh = 2 if ctx.quick else 4
        res = [None] * nsh

        def one(k):
            try:
                rows, summ = run_pipe(ctx, "TestZZVerifG02Pipeline", "g02_pipe%d" % k, {}, vectors=sel[k::nsh])
                res[k] = (rows, summ, validate_trace(ctx, rows, "g02_pipe%d_tlc.ndjson" % k, cfg="TraceDnsRewrite.pipe%d.cfg" % k))
            except Exception as ex:  # noqa: BLE001
                res[k] = ex
        tt = [threading.Thread(target=one, args=(k,)) for k in range(nsh)]
        for t in tt:
            t.start()
        for t in tt:
            t.join()
        parts["pipe"] = res

    def part_ptrace():
        rows, summ = run_pipe(ctx, "TestZZVerifG02PipeTrace", "g02_ptrace",
                              {"VERIF_G02_TRACE_CFGS": "200" if ctx.quick else "1500"})
        parts["ptrace"] = (rows, summ, validate_trace(ctx, rows, "g02_ptrace_tlc.ndjson", cfg="TraceDnsRewrite.ptrace.cfg"))

    def guarded(f, name):
        def g():
            try:
                f()
            except Exception as ex:  # noqa: BLE001
                th_results[name] = ex
        return g

    ths = [threading.Thread(target=guarded(f, n)) for f, n in
           ((part_filter, "filter"), (part_hist, "hist"), (part_ftrace, "ftrace"), (part_pipe, "pipe"),
            (part_ptrace, "ptrace"))]
    for t in ths:
        t.start()
    for t in ths:
        t.join()
    # A strand that did not complete makes the run INCONCLUSIVE -- but only after the strands
    # that did complete have been looked at: a reproduced disagreement is reported in any case.
    deferred = []

    def defer(ex, what):
        deferred.append(ex if isinstance(ex, vlib.Inconclusive) else vlib.Inconclusive("%s: %r" % (what, ex)))

    for n, ex in th_results.items():
        defer(ex, n)
        parts.pop(n, None)
    for n in ("filter", "hist", "ftrace", "ptrace"):
        if isinstance(parts.get(n), Exception):
            defer(parts.pop(n), n)
        elif n not in parts and n not in th_results:
            defer(vlib.Inconclusive("strand %s produced nothing" % n), n)

    frows, fsumms = parts.get("filter", ([], []))
    hrows, hsumm = parts.get("hist", ([], {"n": 0, "calls": 0, "stats": {}, "covered": 0, "edges": 0, "states": 0}))
    trows, (tbad, tkf) = parts.get("ftrace", ([], ([], set())))

    flaky = 0
    known = 0
    for lvl, rows in (("filter", frows), ("hist", hrows)):
        for r in rows:
            if r.get("kind") == "bad":
                r["lvl"] = lvl
                res = report(ctx, r, "%s level: CheckHost(%s %s) = %s not admitted by the spec %s; rules %s hosts %s legacy %s (%s)" % (
                    lvl, ".".join(r["q"]["host"]), r["q"]["qt"], json.dumps(r["got"]), json.dumps(r["want"]),
                    json.dumps(r["text"].get("custom")), json.dumps(r["text"].get("hosts")),
                    json.dumps(r["text"].get("legacy")), r.get("via")))
                known += res == "known"
            elif r.get("kind") == "flaky":
                flaky += 1

    # trace lines rejected by TLC are re-executed alone (fresh filter, the same spelling)
    trace_reexec = 0
    if tbad:
        try:
            recs = []
            for i in sorted(tbad, key=lambda i: (i in tkf, i))[:200]:
                line, c = trows[i - 1], cfg_before(trows, i)
                recs.append({"kind": "cand", "id": i, "fam": "trace", "cfg": c["cfg"], "text": c.get("text"), "q": line["q"],
                             "got": line["out"], "want": [], "kf": i in tkf, "salt": c.get("salt", "")})
            pin, pout = ctx.path("g02_probe_in.ndjson"), ctx.path("g02_probe_out.ndjson")
            vlib.write_ndjson(pin, recs)
            rc, out = ctx.go_test(FPKG, FILES, "^TestZZVerifG02Probe$", env={"VERIF_IN": pin, "VERIF_OUT": pout, "GOMAXPROCS": "1"})
            prows = vlib.read_ndjson(pout)
            if rc != 0 or len(prows) != len(recs):
                raise vlib.Inconclusive("G02 probe did not complete:\n" + out[-2000:])
            # the re-executed outcomes go through the trace spec once more
            again = []
            for rec, pr in zip(recs, prows):
                again.append({"k": "cfg", "cfg": rec["cfg"]})
                again.append({"k": "q", "q": rec["q"], "out": pr["got"]})
            bad2, kf2 = validate_trace(ctx, again, "g02_probe_tlc.ndjson")
            nrep = 0
            for j in bad2:
                rec = recs[(j - 1) // 2]
                rec["got2"] = again[j - 1]["out"]
                if not same_obs(rec["got"], rec["got2"]):
                    continue
                nrep += 1
                rec["lvl"] = "trace"
                rec["kf"] = rec["kf"] and j in kf2
                trace_reexec += 1
                known += "known" == report(ctx, rec, "trace line %d rejected by TraceDnsRewrite and again when re-executed alone: %s %s -> %s; rules %s hosts %s" % (
                    rec["id"], ".".join(rec["q"]["host"]), rec["q"]["qt"], json.dumps(rec["got2"]),
                    json.dumps((rec.get("text") or {}).get("custom")), json.dumps((rec.get("text") or {}).get("hosts"))))
            flaky += len(recs) - nrep
        except vlib.Inconclusive as ex:
            defer(ex, "trace re-execution")

    # ---------------------------------------------------------------- pipeline level
    pipe_lines = pipe_cfgs = pipe_rej = pipe_repro = 0
    pclasses = {}
    pstats = {}
    strands = []
    for k, r in enumerate(parts.get("pipe") or []):
        if isinstance(r, Exception):
            defer(r, "pipeline shard %d" % k)
        elif r is not None:
            strands.append(("g02_pipe", r))
    if "ptrace" in parts:
        strands.append(("g02_ptrace", parts["ptrace"]))
    psample = None
    abandoned = []
    for name, (rows, summ, (pbad, pkf)) in strands:
        if summ.get("abandoned"):
            abandoned.append(name)
        pipe_cfgs += summ["n"]
        for kk, vv in summ["stats"].items():
            pstats[kk] = pstats.get(kk, 0) + vv
        for r in rows:
            if r["k"] == "p":
                pipe_lines += 1
                c = pipe_class(r)
                pclasses[c] = pclasses.get(c, 0) + 1
                psample = psample or r
        pipe_rej += len(pbad)
        if pbad:
            try:
                recs, unrep = pipe_reexec(ctx, rows, pbad, pkf, name)
            except vlib.Inconclusive as ex:
                defer(ex, "pipeline re-execution")
                continue
            flaky += unrep
            for rec in recs:
                pipe_repro += 1
                known += "known" == report(ctx, rec, "pipeline: %s %s observed %s (upstream behaviour %s), rejected by TraceDnsRewrite and again when "
                                           "re-executed alone on a fresh server; rules %s hosts %s" % (
                                               ".".join(rec["q"]["host"]), rec["q"]["qt"], json.dumps(rec["got2"]), rec["m"],
                                               json.dumps((rec.get("text") or {}).get("custom")), json.dumps((rec.get("text") or {}).get("hosts"))))

    if abandoned:
        defer(vlib.Inconclusive("pipeline driver abandoned (more than 12 questions without a reply): %s" % abandoned), "pipeline")
    if deferred:
        raise deferred[0]

    pneed = ["cname-answer", "cname-nodata", "cname-nxdomain", "cname-servfail", "forwarded-answer", "forwarded-nxdomain",
             "local-nxdomain", "local-refused", "local-records", "local-empty", "local-ptr"]
    pmiss = [c for c in pneed if not pclasses.get(c)]
    if pmiss:
        raise vlib.Inconclusive("pipeline strand never observed: %s" % ", ".join(pmiss))

    ncfg = sum(s["n"] for s in fsumms)
    calls = sum(s["stats"].get("calls", 0) for s in fsumms) + hsumm.get("calls", 0)
    stats = {}
    for s in fsumms + [hsumm]:
        for k, v in s["stats"].items():
            stats[k] = stats.get(k, 0) + v
    if ncfg != len(cfgs):
        raise vlib.Inconclusive("replayed %d of %d configurations" % (ncfg, len(cfgs)))
    if not ctx.quick and hsumm["covered"] != hsumm["edges"]:
        raise vlib.Inconclusive("reconfiguration machine: %d of %d edges walked" % (hsumm["covered"], hsumm["edges"]))
    if flaky > 20:
        raise vlib.Inconclusive("too many unreproduced disagreements: %d" % flaky)
    if stats.get("hosts_not_refreshed") or pstats.get("hosts_not_refreshed") or pstats.get("no_reply"):
        if not ctx.violations:
            raise vlib.Inconclusive("hosts container not refreshed in time %s times, %s questions without a reply" % (
                stats.get("hosts_not_refreshed", 0) + pstats.get("hosts_not_refreshed", 0), pstats.get("no_reply", 0)))

    classes = {}
    nontrivial = 0
    for v in cfgs:
        nt = False
        for g in v["vd"]:
            for o in g["o"]:
                c = out_class(o)
                classes[c] = classes.get(c, 0) + len(g["q"])
                nt = nt or o["r"] != "none"
        nontrivial += nt
    tq = [r for r in trows if r["k"] == "q"]
    tclasses = {}
    for r in tq:
        c = out_class(r["out"])
        tclasses[c] = tclasses.get(c, 0) + 1
    need = ["rule-records", "rule-cname", "rule-nodata", "hosts", "hosts-empty", "legacy", "block", "allow", "none"]
    miss = [c for c in need if not tclasses.get(c)]
    if miss:
        raise vlib.Inconclusive("trace driver never observed: %s" % ", ".join(miss))

    sample = lambda v: {"fam": v["fam"], "cfg": v["cfg"], "verdicts": v["vd"][:2]}  # noqa: E731
    cov = {
        "traces_validated_against_impl": ncfg + hsumm["n"] + len(tq) + pipe_lines,
        "configurations_generated": len(cfgs), "configurations_replayed": ncfg,
        "evaluations": calls + len(tq) + pipe_lines,
        "distinct_nontrivial": nontrivial,
        "rule": "one vector per configuration (rules, hosts file, hosts_file_enabled, legacy table, switches) with the "
                "admissible outcomes of every question of its family; non-trivial = some question is rewritten, blocked "
                "or allowed; every question is asked through the real CheckHost on live, reconfigured filters",
        "outcome_classes_in_vectors": classes, "outcome_classes_in_trace": tclasses,
        "clause_witnesses": {c: wit.get(c, 0) for c in CLAUSES + ["SkipDiffers"]},
        "actions_taken": taken,
        "machine": {"states": hsumm["states"], "edges": hsumm["edges"], "edges_walked": hsumm["covered"], "steps": hsumm["n"]},
        "live_reconfigurations": {k: v for k, v in stats.items() if k.startswith("live_")},
        "fresh_filters": stats.get("fresh_filters", 0),
        "trace_lines": len(trows), "trace_questions": len(tq), "trace_lines_rejected": len(tbad),
        "trace_rejections_reproduced": trace_reexec,
        "pipeline": {"configurations": pipe_cfgs, "udp_questions_validated_by_tlc": pipe_lines, "classes": pclasses,
                     "lines_rejected": pipe_rej, "rejections_reproduced": pipe_repro, "reconfigurations": pstats},
        "known_finding_observations": known, "flaky": flaky,
        "exhaustive": not ctx.quick,
        "samples": [sample(cfgs[0]), sample(cfgs[len(cfgs) // 2]), sample(cfgs[-1]), {"trace_line": tq[0]}, {"pipeline_line": psample}],
    }
    return ctx.finish("model_checking", cov, assumptions=[
        "TLC; conc()/abs() of zz_verif_g02_test.go (label dictionary, address tokens, fixed texts of the structured values)",
        "RuleEngine.tla (C01) for rule matching and ordinary-rule precedence, RewritesCore.tla (C06) for the legacy table",
        "hosts_file_enabled is modelled where package home applies it (Config.EtcHosts = nil); the hosts container is the real "
        "aghnet.HostsContainer over an in-memory file system with the package's fake watcher",
        "a disagreement on a live filter is reproduced on a fresh one (or by rehearsing the last reconfiguration) before it is reported"])


def replay(ctx, path):
    """Re-run one stored disagreement against the current tree: the question is asked alone on a
    fresh filter (fresh server for pipeline records) and TraceDnsRewrite.tla decides."""
    rec = json.load(open(path))["record"]
    if rec.get("lvl") == "pipe":
        pin, pout = ctx.path("g02_rp_in.ndjson"), ctx.path("g02_rp_out.ndjson")
        vlib.write_ndjson(pin, [{"cfg": rec["cfg"], "q": rec["q"], "salt": rec["salt"], "epoch": rec["epoch"]}])
        rc, out = ctx.go_test(DPKG, FILES, "^TestZZVerifG02PipeProbe$", env={"VERIF_IN": pin, "VERIF_OUT": pout, "GOMAXPROCS": "2"})
        rows = vlib.read_ndjson(pout)
        if rc != 0 or not rows:
            raise vlib.Inconclusive("G02 pipeline probe did not complete:\n" + out[-2000:])
        line = {"k": "p", "q": rec["q"], "m": rows[0]["m"], "obs": rows[0]["obs"]}
        observed = rows[0]["obs"]
    else:
        r2 = dict(rec)
        r2.setdefault("want", [])
        r2["text"] = None
        r2 = {k: v for k, v in r2.items() if k in ("kind", "id", "fam", "cfg", "q", "got", "want", "kf", "via", "salt")}
        r2["id"] = r2.get("id") or 0
        pin, pout = ctx.path("g02_rp_in.ndjson"), ctx.path("g02_rp_out.ndjson")
        vlib.write_ndjson(pin, [r2])
        rc, out = ctx.go_test(FPKG, FILES, "^TestZZVerifG02Probe$", env={"VERIF_IN": pin, "VERIF_OUT": pout, "GOMAXPROCS": "1"})
        rows = vlib.read_ndjson(pout)
        if rc != 0 or not rows:
            raise vlib.Inconclusive("G02 probe did not complete:\n" + out[-2000:])
        line = {"k": "q", "q": rec["q"], "out": rows[0]["got"]}
        observed = rows[0]["got"]
    bad, kf = validate_trace(ctx, [{"k": "cfg", "cfg": rec["cfg"]}, line], "g02_rp_tlc.ndjson", cfg="TraceDnsRewrite.probe.cfg")
    print(json.dumps({"rules": rows[0].get("text"), "question": rec["q"], "expected": rec.get("want") or "decided by TraceDnsRewrite.tla",
                      "observed": observed, "admissible": not bad, "explained_by_known_finding": bool(bad) and 2 in kf}, indent=1))
    return 1 if bad else 0
