--------------------------- MODULE ClientsIndApa ---------------------------
(***************************************************************************)
(* Apalache front end of ClientsInd.tla: the constants are ARBITRARY sets  *)
(* (Gen) of at most the stated cardinalities -- any strings, any triples,  *)
(* not a symmetric or enumerated universe -- constrained by ConstOK only;  *)
(* IndInit is an arbitrary state (a registry of at most N arbitrary        *)
(* clients) constrained by IndInv only.  Gen(n) bounds every level of the  *)
(* structure by n (Configs = Gen(3): at most 3 files of at most 3 clients  *)
(* with at most 3 identifiers each).  Q = quick bounds, T = thorough.      *)
(* Measured: Q 12 s, T 80 s; (4, 6, 4, 3 files, 5 clients) 10 min.         *)
(***************************************************************************)
EXTENDS ClientsInd, Apalache

CInitQ ==
    /\ Names = Gen(3)
    /\ Ident = Gen(4)
    /\ IdSets = Gen(3)
    /\ Flags \in [Names -> SUBSET (BOOLEAN \X BOOLEAN)]
    /\ LeaseAddrs = Gen(2)
    /\ LeaseMacs = Gen(2)
    /\ Configs = Gen(2)
    /\ ConstOK

IndInitQ ==
    /\ clients = Gen(3)
    /\ leases \in [LeaseAddrs -> LeaseMacs \cup {NoId}]
    /\ last \in [op : Ops, out : {"ok", "err"}]
    /\ IndInv

CInitT ==
    /\ Names = Gen(3)
    /\ Ident = Gen(5)
    /\ IdSets = Gen(3)
    /\ Flags \in [Names -> SUBSET (BOOLEAN \X BOOLEAN)]
    /\ LeaseAddrs = Gen(2)
    /\ LeaseMacs = Gen(2)
    /\ Configs = Gen(3)
    /\ ConstOK

IndInitT ==
    /\ clients = Gen(4)
    /\ leases \in [LeaseAddrs -> LeaseMacs \cup {NoId}]
    /\ last \in [op : Ops, out : {"ok", "err"}]
    /\ IndInv
=============================================================================
