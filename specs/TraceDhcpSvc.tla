--------------------------- MODULE TraceDhcpSvc ---------------------------
(***************************************************************************)
(* Direction B for G06 (B).  trace.ndjson holds a header line (the         *)
(* universe of the run) followed by one line per call made on the real     *)
(* dhcpsvc.DHCPServer in long random histories over a universe larger than *)
(* the exhaustive one (more clients, four networks on two interfaces, more *)
(* names): the call and its arguments, the projected table before (src)    *)
(* and after (dst), the database before (srcdisk) and after (disk), the    *)
(* result (out), and the disagreements between the server's indexes,       *)
(* per-interface tables and public answers found by the harness before     *)
(* (srcprob) and after (prob) the call.                                    *)
(*                                                                         *)
(* A line is accepted iff (dst, out) is one of the outcomes DhcpSvc's own  *)
(* operator for that call admits in src, every lease is listed once, the   *)
(* database lists exactly dst (a restart leaves it alone) and no new        *)
(* structural disagreement appeared.  The specification state is           *)
(* re-synchronised after every line.                                       *)
(***************************************************************************)
EXTENDS Integers, Sequences, FiniteSets, TLC, Json

Trace == ndJsonDeserialize("trace.ndjson")
Hdr   == Trace[1]
SetOf(s) == {s[i] : i \in DOMAIN s}

VARIABLES ls, disk, l, bad

D == INSTANCE DhcpSvc WITH Macs <- SetOf(Hdr.macs), Pool <- SetOf(Hdr.pool), Outs <- SetOf(Hdr.outs),
                           GWs <- SetOf(Hdr.gws), Fars <- SetOf(Hdr.fars), Hosts <- SetOf(Hdr.hosts)

\* <<mac, ip, 3 if static else 1, host>> as the harness writes leases.
Dec(t)   == D!Lease(t[1], t[2], t[3] >= 2, t[4])
DecS(s)  == {Dec(s[i]) : i \in DOMAIN s}
Once(s)  == Cardinality(DecS(s)) = Len(s) /\ \A i \in DOMAIN s : s[i][3] \in {1, 3}

Outcomes(S, Dk, a) ==
    CASE a.act = "AddLease"     -> D!AddLeaseOut(S, a.m, a.a, a.kind = "static", a.h)
      [] a.act = "UpdateStatic" -> D!UpdateStaticOut(S, a.m, a.a, a.h)
      [] a.act = "RemoveLease"  -> D!RemoveLeaseOut(S, a.m, a.a, a.h)
      [] a.act = "Reset"        -> D!ResetOut(S)
      [] a.act = "Restart"      -> D!RestartOut(Dk)
      [] OTHER                  -> {}

ReplyOK(o, obs) == IF o.out = "none" THEN obs.k = "-" ELSE obs.k = o.out

Why(S, Dk, t) ==
    LET dst  == DecS(t.dst)
        dk   == DecS(t.disk)
        outs == Outcomes(S, Dk, t.act)
    IN  IF DecS(t.src) # S \/ DecS(t.srcdisk) # Dk THEN "src"
        ELSE IF ~Once(t.dst) THEN "state"
        ELSE IF \A o \in outs : o.dst # dst THEN "state"
        ELSE IF \A o \in outs : o.dst = dst => ~ReplyOK(o, t.out) THEN "reply"
        ELSE IF ~Once(t.disk) \/ dk # (IF t.act.act = "Restart" THEN Dk ELSE dst) THEN "disk"
        ELSE IF ~(SetOf(t.prob) \subseteq SetOf(t.srcprob)) THEN "structures"
        ELSE ""
Want(S, Dk, t) == {<<o.dst = S, D!EncS(o.dst), o.out, 0, IF t.act.act = "Restart" THEN 2 ELSE 0>>
                   : o \in Outcomes(S, Dk, t.act)}

Init == ls = {} /\ disk = {} /\ l = 2 /\ bad = {}
Next == /\ l <= Len(Trace)
        /\ LET t  == Trace[l]
               S  == IF t.reset THEN {} ELSE ls
               Dk == IF t.reset THEN {} ELSE disk
               w  == Why(S, Dk, t)
           IN  /\ bad' = IF w = "" THEN bad ELSE bad \cup {[l |-> l, why |-> w, want |-> Want(S, Dk, t)]}
               /\ ls' = DecS(t.dst)
               /\ disk' = DecS(t.disk)
        /\ l' = l + 1
        /\ (l' = Len(Trace) + 1 => PrintT(<<"@@V", ToJson([n |-> Len(Trace), bad |-> bad'])>>))
Spec == Init /\ [][Next]_<<ls, disk, l, bad>>
=============================================================================
