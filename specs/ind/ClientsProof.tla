---------------------------- MODULE ClientsProof ----------------------------
(***************************************************************************)
(* G12 -- TLAPS proof that ClientsInd!IndInv is an inductive invariant of  *)
(* ClientsInd!Spec for ARBITRARY constant sets (any cardinality, infinite  *)
(* included) satisfying ConstOK, and that it implies the safety part of    *)
(* C04 that speaks about the registry: unique owner, identifiers and names *)
(* resolve to their owner, rejected operations change nothing.             *)
(* One step per action.  Checked with  tlapm --threads N ClientsProof.tla. *)
(***************************************************************************)
EXTENDS ClientsInd, TLAPS

ASSUME ConstAssump == ConstOK /\ ConfigsAreSequences

LEMMA MkWellFormed ==
    ASSUME NEW n \in Names, NEW ids \in IdSets, NEW f \in Flags[n]
    PROVE  /\ WellFormed(Mk(n, ids, f))
           /\ Mk(n, ids, f).ids # {} /\ Mk(n, ids, f).name # ""
           /\ Mk(n, ids, f).name = n /\ Mk(n, ids, f).ids = ids
  <1>1 f \in BOOLEAN \X BOOLEAN BY ConstAssump DEF ConstOK
  <1>2 <<f[1], f[2]>> = f BY <1>1
  <1> QED BY <1>2, ConstAssump DEF ConstOK, WellFormed, Mk

LEMMA InitInv == Init => IndInv
  BY ConstAssump DEF Init, IndInv, TypeOK, Consistent, Ops, ConstOK

\* Adding a record that does not clash keeps a consistent registry consistent.
LEMMA AddKeeps ==
    ASSUME NEW R, NEW c, Consistent(R), ~Clashes(R, c), c.ids # {}, c.name # ""
    PROVE  Consistent(R \cup {c})
  <1>1 \A d \in R : c.name # d.name /\ c.ids \cap d.ids = {}
    <2> TAKE d \in R
    <2>1 d.name \in NamesOf(R) BY DEF NamesOf
    <2>2 d.ids \subseteq IdsOf(R) BY DEF IdsOf
    <2> QED BY <2>1, <2>2 DEF Clashes
  <1>2 \A x, y \in R \cup {c} : x # y => x.name # y.name /\ x.ids \cap y.ids = {}
    <2> TAKE x, y \in R \cup {c}
    <2>1 CASE x \in R /\ y \in R BY <2>1 DEF Consistent
    <2>2 CASE x = c /\ y \in R BY <2>2, <1>1
    <2>3 CASE x \in R /\ y = c BY <2>3, <1>1
    <2>4 CASE x = c /\ y = c BY <2>4
    <2> QED BY <2>1, <2>2, <2>3, <2>4
  <1>3 \A x \in R \cup {c} : x.ids # {} /\ x.name # "" BY DEF Consistent
  <1> QED BY <1>2, <1>3 DEF Consistent

LEMMA SubKeeps ==
    ASSUME NEW R, NEW S, Consistent(R), S \subseteq R
    PROVE  Consistent(S)
  BY DEF Consistent

LEMMA NextInv == IndInv /\ [Next]_vars => IndInv'
  <1> SUFFICES ASSUME IndInv, [Next]_vars PROVE IndInv'
    OBVIOUS
  <1> USE DEF IndInv
  <1>1 CASE Add
    <2>0 PICK n \in Names, ids \in IdSets : \E f \in Flags[n] :
            /\ clients' = AddRes(clients, Mk(n, ids, f)).reg
            /\ last' = [op |-> "add", out |-> AddRes(clients, Mk(n, ids, f)).out]
            /\ UNCHANGED leases
      BY <1>1 DEF Add
    <2>1 PICK f \in Flags[n] :
            /\ clients' = AddRes(clients, Mk(n, ids, f)).reg
            /\ last' = [op |-> "add", out |-> AddRes(clients, Mk(n, ids, f)).out]
            /\ UNCHANGED leases
      BY <2>0
    <2> DEFINE c == Mk(n, ids, f)
    <2>2 WellFormed(c) /\ c.ids # {} /\ c.name # "" BY MkWellFormed
    <2>3 CASE Clashes(clients, c)
      BY <2>1, <2>3 DEF AddRes, TypeOK, Ops
    <2>4 CASE ~Clashes(clients, c)
      <3>1 clients' = clients \cup {c} /\ last' = [op |-> "add", out |-> "ok"]
        BY <2>1, <2>4 DEF AddRes
      <3>2 Consistent(clients') BY <3>1, <2>2, <2>4, AddKeeps
      <3> HIDE DEF c
      <3> QED BY <3>1, <3>2, <2>1, <2>2 DEF TypeOK, Ops
    <2> QED BY <2>3, <2>4
  <1>2 CASE Update
    <2>0 PICK o \in Names, n \in Names, ids \in IdSets : \E f \in Flags[n] :
            /\ clients' = UpdateRes(clients, o, Mk(n, ids, f)).reg
            /\ last' = [op |-> "upd", out |-> UpdateRes(clients, o, Mk(n, ids, f)).out]
            /\ UNCHANGED leases
      BY <1>2 DEF Update
    <2>1 PICK f \in Flags[n] :
            /\ clients' = UpdateRes(clients, o, Mk(n, ids, f)).reg
            /\ last' = [op |-> "upd", out |-> UpdateRes(clients, o, Mk(n, ids, f)).out]
            /\ UNCHANGED leases
      BY <2>0
    <2> DEFINE c == Mk(n, ids, f)
               rest == clients \ {ByName(clients, o)}
    <2>2 WellFormed(c) /\ c.ids # {} /\ c.name # "" BY MkWellFormed
    <2>3 CASE o \notin NamesOf(clients) \/ Clashes(rest, c)
      BY <2>1, <2>3 DEF UpdateRes, TypeOK, Ops
    <2>4 CASE ~(o \notin NamesOf(clients) \/ Clashes(rest, c))
      <3>1 clients' = rest \cup {c} /\ last' = [op |-> "upd", out |-> "ok"]
        BY <2>1, <2>4 DEF UpdateRes
      <3>2 Consistent(rest) BY SubKeeps
      <3>3 Consistent(clients') BY <3>1, <3>2, <2>2, <2>4, AddKeeps
      <3>4 \A x \in clients' : WellFormed(x) BY <3>1, <2>2 DEF TypeOK
      <3> HIDE DEF c, rest
      <3> QED BY <3>1, <3>3, <3>4, <2>1 DEF TypeOK, Ops
    <2> QED BY <2>3, <2>4
  <1>3 CASE Remove
    <2>1 PICK n \in Names :
            /\ clients' = RemoveRes(clients, n).reg
            /\ last' = [op |-> "rem", out |-> RemoveRes(clients, n).out]
            /\ UNCHANGED leases
      BY <1>3 DEF Remove
    <2>2 clients' \subseteq clients /\ RemoveRes(clients, n).out \in {"ok", "err"}
      BY <2>1 DEF RemoveRes
    <2>3 Consistent(clients') BY <2>2, SubKeeps
    <2> QED BY <2>1, <2>2, <2>3 DEF TypeOK, Ops
  <1>4 CASE LeaseChange
    BY <1>4 DEF LeaseChange, TypeOK, Ops
  <1>5 CASE LoadConfig
    <2>1 PICK cs \in Configs :
            /\ clients' = LoadRes(cs).reg
            /\ last' = [op |-> "load", out |-> LoadRes(cs).out]
            /\ UNCHANGED leases
      BY <1>5 DEF LoadConfig
    <2>2 \A i \in DOMAIN cs : WellFormed(cs[i]) /\ i \in Int
      BY ConstAssump DEF ConstOK, ConfigsAreSequences
    <2>3 CASE ~LoadOK(cs)
      <3>1 clients' = {} /\ last' = [op |-> "load", out |-> "err"] BY <2>1, <2>3 DEF LoadRes
      <3> QED BY <3>1, <2>1 DEF TypeOK, Ops, Consistent
    <2>4 CASE LoadOK(cs)
      <3>1 clients' = {cs[i] : i \in DOMAIN cs} /\ last' = [op |-> "load", out |-> "ok"]
        BY <2>1, <2>4 DEF LoadRes
      <3>2 \A x \in clients' : WellFormed(x) BY <3>1, <2>2
      <3>3 \A x \in clients' : x.ids # {} /\ x.name # ""
        BY <3>2, ConstAssump DEF WellFormed, ConstOK
      <3>4 ASSUME NEW x \in clients', NEW y \in clients', x # y
           PROVE  x.name # y.name /\ x.ids \cap y.ids = {}
        <4>1 PICK i \in DOMAIN cs, j \in DOMAIN cs : x = cs[i] /\ y = cs[j] BY <3>1
        <4>2 i # j BY <4>1, <3>4
        <4>3 i \in Int /\ j \in Int BY <2>2
        <4>4 CASE i < j BY <4>1, <4>4, <2>4 DEF LoadOK
        <4>5 CASE j < i BY <4>1, <4>5, <2>4 DEF LoadOK
        <4> QED BY <4>2, <4>3, <4>4, <4>5
      <3>5 Consistent(clients') BY <3>3, <3>4 DEF Consistent
      <3> QED BY <3>1, <3>2, <3>5, <2>1 DEF TypeOK, Ops
    <2> QED BY <2>3, <2>4
  <1>6 CASE UNCHANGED vars
    BY <1>6 DEF vars, TypeOK, Consistent, WellFormed
  <1> QED BY <1>1, <1>2, <1>3, <1>4, <1>5, <1>6 DEF Next

THEOREM Invariance == Spec => []IndInv
  BY InitInv, NextInv, PTL DEF Spec

\* ------------------------------------------------ IndInv implies the safety
LEMMA OwnerIsOwner ==
    ASSUME NEW R, NEW id, Owners(R, id) # {}
    PROVE  Owner(R, id) \in Owners(R, id)
  BY DEF Owner

LEMMA ByNameIsNamed ==
    ASSUME NEW R, NEW n, n \in NamesOf(R)
    PROVE  ByName(R, n) \in R /\ ByName(R, n).name = n
  <1>1 \E c \in R : c.name = n BY DEF NamesOf
  <1> QED BY <1>1 DEF ByName

THEOREM IndInvSafe == IndInv => Safety
  <1> SUFFICES ASSUME IndInv PROVE Safety OBVIOUS
  <1>0 Consistent(clients) BY DEF IndInv
  <1>1 UniqueOwner
    BY <1>0 DEF UniqueOwner, Consistent, Owners
  <1>2 ASSUME NEW id \in Ident \cup LeaseMacs
       PROVE  LET r == Owner(clients, id) IN
                \/ r = NoClient /\ id \notin IdsOf(clients)
                \/ r \in clients /\ id \in r.ids /\ \A c \in clients : id \in c.ids => c = r
    <2>1 CASE Owners(clients, id) = {}
      BY <2>1 DEF Owner, Owners, IdsOf
    <2>2 CASE Owners(clients, id) # {}
      <3>1 Owner(clients, id) \in Owners(clients, id) BY <2>2, OwnerIsOwner
      <3> QED BY <3>1, <1>0 DEF Owners, Consistent
    <2> QED BY <2>1, <2>2
  <1>3 ASSUME NEW n \in Names
       PROVE  LET r == ByName(clients, n) IN
                \/ r = NoClient /\ n \notin NamesOf(clients)
                \/ r \in clients /\ r.name = n /\ \A c \in clients : c.name = n => c = r
    <2>1 CASE n \notin NamesOf(clients)
      BY <2>1 DEF ByName
    <2>2 CASE n \in NamesOf(clients)
      <3>1 ByName(clients, n) \in clients /\ ByName(clients, n).name = n BY <2>2, ByNameIsNamed
      <3> QED BY <3>1, <1>0 DEF Consistent
    <2> QED BY <2>1, <2>2
  <1>4 NoClient \notin clients
    BY <1>0 DEF Consistent, NoClient
  <1> QED BY <1>1, <1>2, <1>3, <1>4 DEF Safety, Resolves

\* -------------------------------------- rejected operations change nothing
THEOREM Rejected == [Next]_vars => RejectedLeavesUnchanged
  <1> SUFFICES ASSUME [Next]_vars PROVE RejectedLeavesUnchanged OBVIOUS
  <1> USE DEF RejectedLeavesUnchanged
  <1>1 CASE Add BY <1>1 DEF Add, AddRes
  <1>2 CASE Update BY <1>2 DEF Update, UpdateRes
  <1>3 CASE Remove BY <1>3 DEF Remove, RemoveRes
  <1>4 CASE LeaseChange BY <1>4 DEF LeaseChange
  <1>5 CASE LoadConfig BY <1>5 DEF LoadConfig, LoadRes
  <1>6 CASE UNCHANGED vars BY <1>6 DEF vars
  <1> QED BY <1>1, <1>2, <1>3, <1>4, <1>5, <1>6 DEF Next
=============================================================================
