PROPERTY = "C07"
ENTRY = {
        "text": "QueryLog.tla (ring buffer, querylog.json, querylog.json.1, in-flight flush batch, ghost 'recorded'; actions Record, Enc/App (the two halves of a flush), "
                "AutoFlush, Rotate, Clear, SetConf, Restart, Search) is model-checked by TLC over all histories of a small universe with the statement's clauses as invariants "
                "(NothingLost, PayloadPreserved, SearchAll, PagingPartitions for cursor and offset paging, NoParameterCrashes) and a configuration showing that the excluded "
                "flush-pending window is necessary.  Direction A: TLC emits every labelled edge of the reachable graph and, per state, the table of requests with the replies "
                "the spec fixes (all filters, cursor/offset pagings, cursors at every stored timestamp +-1 and out of range, odd limit/offset values); the Go harness covers the "
                "edges with walks on the real query log (temp dir, real GET /control/querylog, clear and config handlers), compares the projected state after every step and every "
                "reply.  Direction B: seeded random histories (2000 records in thorough) are recorded and validated line by line by TraceQueryLog.tla.  Payload fidelity per "
                "payload shape is compared differentially (memory vs file vs rotated file) and against the recorded input.",
        "design_ref": "DESIGN.md section 4 C07",
        "note": "Trusted: TLC; conc()/abs() of zz_verif_c07_test.go (entries identified by their exact timestamps; the spec's search-term table is bound to the concrete strings by the "
                "harness's own matcher at start-up).  Ring eviction / restart with FileEnabled=false count as removal by configuration.  Two cells of the response_status table that the API "
                "text does not decide are taken from the unchanged tree.  Searches are made at quiescent points; records inside the flush-pending window are excluded as the statement does.  "
                "Payload fidelity is decided by JSON comparison in the harness, not by TLC.",
        "technique": "TLA+ state machine model-checked by TLC; edge-covering replay of TLC's transition graph into real code + TLC trace validation",
    }
