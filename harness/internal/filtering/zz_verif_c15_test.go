package filtering

// C15 conformance harness.
//
// Parser half (specs/RuleList.tla, specs/TraceRuleList.tla): token texts are
// concretised (zzC15Table.conc), fed to the real rulelist.Parser, the stored
// bytes are abstracted back (zzC15Table.lex) and compared with the admissible
// outcomes; the stored bytes are parsed again (fixed point).
//
// Refresh half (specs/FilterRefresh.tla, specs/TraceFilterRefresh.tla): a
// real DNSFilter over a temporary data directory, an HTTP client pointed at an
// httptest server that plays the scripted behaviour per request, forced
// refresh through the real POST /control/filtering/refresh handler, scheduled
// refresh through periodicallyRefreshFilters, restart through Close + New.
// After every step the harness projects: bytes of data/filters/<id>.txt,
// whether the file was replaced (inode), rules_count from the real GET
// /control/filtering/status handler, rules in force through CheckHost.

import (
	"bytes"
	"encoding/json"
	"fmt"
	"hash/fnv"
	"io"
	"math/rand"
	"net"
	"net/http"
	"net/http/httptest"
	"os"
	"path/filepath"
	"sort"
	"strconv"
	"strings"
	"sync"
	"syscall"
	"testing"
	"time"

	"github.com/AdguardTeam/AdGuardHome/internal/filtering/rulelist"
	"github.com/AdguardTeam/golibs/log"
	"github.com/miekg/dns"
)

// ------------------------------------------------------------ conc() / abs()

// zzC15Table maps tokens to their spelling.  One table per (world, list) or
// per parser vector; the lexer uses the very same spellings.
type zzC15Table struct {
	scope  string
	suffix string
	m      map[string]string
	rlLen  int
}

var (
	zzC15SP    = []string{" ", "\t", "  ", " \t ", "\u00a0", "\u0085 ", "\u3000", "  \t"}
	zzC15Hash  = []string{"# comment", "#", "#!x", "# ||r9.zz.example^", "#\t<html>", "#\xff\xfe latin"}
	zzC15Bang  = []string{"! comment", "!", "!! x", "! Titel: x", "!Title: x", "! Homepage: http://example.org/"}
	zzC15Title = []string{"! Title: My list", "! Title: x", "! Title:  spaced  title"}
	zzC15HTML  = []string{"<html>", "<!DOCTYPE html>", "<HTML lang=\"en\">", "<!doctype html><html><head>", "<hTmL", "<!DocType"}
	zzC15Bin   = []string{"\x00", "\x01", "\x02", "\x07", "\x08", "\x0e", "\x1b", "\x1f", "\x7f"}
	zzC15VT    = []string{"\v", "\f"}
	// Lines that start with a hash sign but are not plain comments.
	zzC15Cosm = []string{"##.banner", "#@#.banner", "#?#div:has(> .ad)", "#$#body { overflow: auto }", "#%#//scriptlet('abort-on-property-read', 'x')"}
)

// zzC15CosmChoices returns the spellings of COSM that may be used: all of
// them, or those named by VERIF_COSM (a JSON list).
func zzC15CosmChoices() (xs []string) {
	if v := zzGetenv("VERIF_COSM"); v != "" {
		if err := json.Unmarshal([]byte(v), &xs); err == nil && len(xs) > 0 {
			return xs
		}
	}

	return zzC15Cosm
}

// zzC15CosmIsRule measures the parser's policy for one spelling: is such a
// line, in a text without a title line, stored as a rule?
func zzC15CosmIsRule(spelling string) (isRule bool) {
	res, err := rulelist.NewParser().Parse(
		io.Discard,
		strings.NewReader(spelling+"\n"),
		make([]byte, rulelist.DefaultRuleBufSize),
	)

	return err == nil && res.RulesCount == 1
}

func zzC15Pick(rng *rand.Rand, xs []string) (s string) { return xs[rng.Intn(len(xs))] }

func zzC15NewTable(rng *rand.Rand, scope string) (tb *zzC15Table) {
	tb = &zzC15Table{scope: scope, m: map[string]string{
		"LF":    "\n",
		"CR":    "\r",
		"SP":    zzC15Pick(rng, zzC15SP),
		"HASH":  zzC15Pick(rng, zzC15Hash),
		"BANG":  zzC15Pick(rng, zzC15Bang),
		"TITLE": zzC15Pick(rng, zzC15Title),
		"HTML":  zzC15Pick(rng, zzC15HTML),
		"BIN":   zzC15Pick(rng, zzC15Bin),
		"VT":    zzC15Pick(rng, zzC15VT),
		"COSM":  zzC15Pick(rng, zzC15CosmChoices()),
	}}
	if rng.Intn(3) == 0 {
		tb.suffix = "$important"
	}

	// A long line: mostly a few KiB, sometimes right below the limit of the
	// line scanner (64 KiB including the terminator).
	switch rng.Intn(4) {
	case 0:
		tb.rlLen = 65000 + rng.Intn(400)
	case 1:
		tb.rlLen = 1025 + rng.Intn(4000)
	default:
		tb.rlLen = 1500 + rng.Intn(30000)
	}

	return tb
}

// fit shortens the long rule so that no physical line of ts, which may glue
// several of them with bare CRs, reaches the 64 KiB of a line buffer: "RL" is
// a long line that fits, "XL" is the one that does not.
func (tb *zzC15Table) fit(ts []string) {
	most, cur := 1, 0
	for _, t := range ts {
		switch t {
		case "LF":
			cur = 0
		case "RL":
			cur++
			most = max(most, cur)
		}
	}

	tb.rlLen = min(tb.rlLen, 64000/most-200)
}

// zzC15LongAtoms are the rule atoms that make line length a dimension of the
// content: around a 4 KiB buffer, several buffers, and the two sides of the
// 64 KiB limit of a line buffer.
var zzC15LongAtoms = []string{"L4095", "L4096", "L4097", "L5K", "L40K", "L65535", "L65536"}

// zzC15LongLen returns the byte length of a long rule atom, or 0.
func zzC15LongLen(t string, jitter int) (n int) {
	switch t {
	case "L5K":
		return 5000 + jitter%300
	case "L40K":
		return 40000 + jitter%2000
	case "L4095", "L4096", "L4097", "L65535", "L65536":
		n, _ = strconv.Atoi(t[1:])
	}

	return n
}

// tok returns the spelling of token t.
func (tb *zzC15Table) tok(t string) (s string) {
	if s, ok := tb.m[t]; ok {
		return s
	}

	switch {
	case t == "RL":
		s = "||" + strings.Repeat("l", tb.rlLen) + "." + tb.scope + ".example^"
	case t == "XL":
		s = "||" + strings.Repeat("x", 66000+tb.rlLen%3000) + "." + tb.scope + ".example^"
	case zzC15LongLen(t, tb.rlLen) > 0:
		// Rule text of exactly that many bytes.
		tail := "." + tb.scope + ".example^" + tb.suffix
		s = "||" + strings.Repeat("l", zzC15LongLen(t, tb.rlLen)-2-len(tail)) + tail
	case strings.HasPrefix(t, "R"):
		s = "||r" + t[1:] + "." + tb.scope + ".example^" + tb.suffix
	case strings.HasPrefix(t, "Q"):
		s = "||q" + t[1:] + "." + tb.scope + ".example^"
	default:
		panic("zzC15: unknown token " + t)
	}

	tb.m[t] = s

	return s
}

func (tb *zzC15Table) conc(ts []string) (b []byte) {
	buf := &bytes.Buffer{}
	for _, t := range ts {
		buf.WriteString(tb.tok(t))
	}

	return buf.Bytes()
}

// lex abstracts bytes back into tokens by longest match over the spellings
// that are in the table.  Unknown bytes become "?".
func (tb *zzC15Table) lex(b []byte) (ts []string) {
	type kv struct{ k, v string }
	kvs := make([]kv, 0, len(tb.m))
	for k, v := range tb.m {
		kvs = append(kvs, kv{k, v})
	}
	sort.Slice(kvs, func(i, j int) bool {
		if len(kvs[i].v) != len(kvs[j].v) {
			return len(kvs[i].v) > len(kvs[j].v)
		}

		return kvs[i].k < kvs[j].k
	})

	ts = []string{}
	for i := 0; i < len(b); {
		found := false
		for _, e := range kvs {
			if bytes.HasPrefix(b[i:], []byte(e.v)) {
				ts = append(ts, e.k)
				i += len(e.v)
				found = true

				break
			}
		}

		if !found {
			ts = append(ts, "?")
			i++
		}
	}

	return ts
}

// zzC15Rules splits the tokens of a stored file into rule lines.  A stored
// file is a sequence of LF-terminated lines; anything else shows up as a line
// ending in "?noeol".
func zzC15Rules(ts []string) (rules [][]string) {
	rules = [][]string{}
	cur := []string{}
	for _, t := range ts {
		if t == "LF" {
			rules = append(rules, cur)
			cur = []string{}

			continue
		}

		cur = append(cur, t)
	}

	if len(cur) > 0 {
		rules = append(rules, append(cur, "?noeol"))
	}

	return rules
}

func zzC15SameRules(a, b [][]string) (ok bool) {
	if len(a) != len(b) {
		return false
	}

	for i := range a {
		if len(a[i]) != len(b[i]) {
			return false
		}

		for j := range a[i] {
			if a[i][j] != b[i][j] {
				return false
			}
		}
	}

	return true
}

func zzC15Quote(b []byte) (s string) {
	if len(b) > 400 {
		return fmt.Sprintf("%q...(%d bytes)...%q", b[:200], len(b), b[len(b)-120:])
	}

	return fmt.Sprintf("%q", b)
}

// zzC15Rng derives a generator from the seed and a string, so that a vector
// is concretised the same way wherever it stands in the input.
func zzC15Rng(key string) (rng *rand.Rand) {
	h := fnv.New64a()
	_, _ = h.Write([]byte(key))

	return rand.New(rand.NewSource(zzSeed() ^ int64(h.Sum64()&0x7fffffffffffffff)))
}

// ------------------------------------------------------------------ parser

type zzC15Outcome struct {
	Ok    bool       `json:"ok"`
	Rules [][]string `json:"rules"`
	// Cosm is the parser policy under which the outcome is admissible.
	Cosm bool `json:"cosm"`
}

type zzC15ParseVec struct {
	T   []string       `json:"t"`
	Adm []zzC15Outcome `json:"adm"`
}

// zzC15ParseObs is what the real parser did with one text.
type zzC15ParseObs struct {
	Ok    bool       `json:"ok"`
	Rules [][]string `json:"rules"`
	Count int        `json:"count"`
	Sum   uint32     `json:"sum"`
	// Fixed point on the real bytes.
	FPOk    bool `json:"fp_ok"`
	FPCount bool `json:"fp_count"`
	FPSum   bool `json:"fp_sum"`
	FPBytes bool `json:"fp_bytes"`
	FPLoad  bool `json:"fp_load"`
	Written bool `json:"written_ok"`

	Err   string `json:"err,omitempty"`
	Chunk int    `json:"chunk"`
	In    string `json:"in"`
	Out   string `json:"out"`
}

// zzC15ChunkReader hands out at most n bytes per Read, as a network does.
type zzC15ChunkReader struct {
	b []byte
	n int
}

func (r *zzC15ChunkReader) Read(p []byte) (n int, err error) {
	if len(r.b) == 0 {
		return 0, io.EOF
	}

	n = min(len(p), r.n, len(r.b))
	copy(p, r.b[:n])
	r.b = r.b[n:]

	return n, nil
}

func zzC15RunParser(tb *zzC15Table, ts []string, chunk int) (o *zzC15ParseObs) {
	src := tb.conc(ts)
	o = &zzC15ParseObs{Chunk: chunk, In: zzC15Quote(src), Rules: [][]string{}}

	dst := &bytes.Buffer{}
	res, err := rulelist.NewParser().Parse(
		dst,
		&zzC15ChunkReader{b: src, n: chunk},
		make([]byte, rulelist.DefaultRuleBufSize),
	)
	if err != nil {
		o.Err = err.Error()
		if len(o.Err) > 200 {
			o.Err = o.Err[:200]
		}

		return o
	}

	out := dst.Bytes()
	o.Ok = true
	o.Out = zzC15Quote(out)
	o.Rules = zzC15Rules(tb.lex(out))
	o.Count = res.RulesCount
	o.Sum = res.Checksum
	o.Written = res.BytesWritten == len(out)

	// Parse(Normal(t)): same count, same checksum, same bytes.
	dst2 := &bytes.Buffer{}
	res2, err2 := rulelist.NewParser().Parse(dst2, bytes.NewReader(out), make([]byte, rulelist.DefaultRuleBufSize))
	o.FPOk = err2 == nil
	o.FPCount = res2.RulesCount == res.RulesCount
	o.FPSum = res2.Checksum == res.Checksum
	o.FPBytes = bytes.Equal(dst2.Bytes(), out)

	// The way a restart reads the stored file.
	res3, err3 := rulelist.NewParser().Parse(io.Discard, bytes.NewReader(out), make([]byte, rulelist.DefaultRuleBufSize))
	o.FPLoad = err3 == nil && res3.RulesCount == res.RulesCount && res3.Checksum == res.Checksum

	return o
}

// zzC15ParseDiffs compares an observation with the admissible outcomes.
//
// cosm is the policy of the real parser for the spelling in use, measured on
// a text without a title line: only outcomes under that policy are admissible.
func zzC15ParseDiffs(v *zzC15ParseVec, o *zzC15ParseObs, cosm bool) (diffs []string) {
	if !o.Ok {
		for _, a := range v.Adm {
			if !a.Ok && a.Cosm == cosm {
				return nil
			}
		}

		return []string{"failed-but-must-succeed"}
	}

	match := false
	mayOk := false
	for _, a := range v.Adm {
		if !a.Ok || a.Cosm != cosm {
			continue
		}

		mayOk = true
		if zzC15SameRules(a.Rules, o.Rules) && o.Count == len(a.Rules) {
			match = true
		}
	}

	if !mayOk {
		diffs = append(diffs, "succeeded-but-must-fail")
	} else if !match {
		diffs = append(diffs, "normal-form-or-count")
	}

	if !o.FPOk || !o.FPCount || !o.FPSum || !o.FPBytes || !o.FPLoad {
		diffs = append(diffs, "not-a-fixed-point")
	}

	if !o.Written {
		diffs = append(diffs, "bytes-written")
	}

	return diffs
}

func zzC15Chunk(rng *rand.Rand) (n int) {
	switch rng.Intn(4) {
	case 0:
		return 1 + rng.Intn(3)
	case 1:
		return 1 << 20
	case 2:
		return 1000 + rng.Intn(3000)
	default:
		return 5 + rng.Intn(200)
	}
}

// TestZZVerifC15ParseReplay is direction A of the parser half.
func TestZZVerifC15ParseReplay(t *testing.T) {
	w := zzNewWriter(t, "VERIF_OUT")
	defer w.close()

	policies := map[string]bool{}
	for _, sp := range zzC15Cosm {
		policies[sp] = zzC15CosmIsRule(sp)
	}

	n, bad, nontrivial := 0, 0, 0
	zzReadNDJSON(t, "VERIF_IN", func(line []byte) {
		v := &zzC15ParseVec{}
		if err := json.Unmarshal(line, v); err != nil {
			t.Fatalf("bad vector: %v", err)
		}

		n++
		key := strings.Join(v.T, " ")
		rng := zzC15Rng(key)
		tb := zzC15NewTable(rng, "x")
		tb.fit(v.T)
		chunk := zzC15Chunk(rng)
		o := zzC15RunParser(tb, v.T, chunk)
		if o.Ok && len(o.Rules) > 0 {
			nontrivial++
		}

		cosm := policies[tb.tok("COSM")]
		diffs := zzC15ParseDiffs(v, o, cosm)
		if len(diffs) == 0 {
			return
		}

		// Reproduce in isolation: same bytes, fresh parser, whole-body reads.
		rng2 := zzC15Rng(key)
		tb2 := zzC15NewTable(rng2, "x")
		tb2.fit(v.T)
		o2 := zzC15RunParser(tb2, v.T, 1<<20)
		diffs2 := zzC15ParseDiffs(v, o2, cosm)
		if len(diffs2) == 0 {
			w.put(map[string]any{"kind": "chunking", "t": v.T, "diffs": diffs, "got": o})
			bad++

			return
		}

		bad++
		w.put(map[string]any{"kind": "bad", "t": v.T, "adm": v.Adm, "cosm": cosm, "diffs": diffs2, "got": o2})
	})

	w.put(map[string]any{"kind": "summary", "n": n, "bad": bad, "nontrivial": nontrivial, "policies": policies})
}

// zzC15RandLine draws one line (without its ending) from a grammar richer
// than the exhaustive one.  probed: R atoms may appear (as whole lines only).
func zzC15RandLine(rng *rand.Rand, nAtoms int, parserOnly bool) (ts []string) {
	atom := func(p string) string { return p + strconv.Itoa(1+rng.Intn(nAtoms)) }
	sp := func() {
		if rng.Intn(3) == 0 {
			ts = append(ts, "SP")
		}
	}

	ts = []string{}
	sp()
	switch k := rng.Intn(40); {
	case k < 14:
		ts = append(ts, atom("R"))
	case k < 17:
		ts = append(ts, atom("Q"), "SP", "HASH")
	case k < 19:
		ts = append(ts, atom("Q"), "SP", atom("Q"))
	case k < 20:
		ts = append(ts, atom("Q"), "CR", atom("Q"))
	case k < 24:
		ts = append(ts, "HASH")
	case k < 27:
		ts = append(ts, "BANG")
	case k < 28:
		if rng.Intn(2) == 0 {
			ts = append(ts, "TITLE")
		} else {
			ts = append(ts, "COSM")
		}
	case k < 33:
		// Blank.
	case k < 34:
		ts = append(ts, "HASH", "SP", atom("R"))
	case k < 35:
		ts = append(ts, "HTML")
	case k < 36:
		ts = append(ts, atom("Q"), "BIN")
	case k < 37:
		ts = append(ts, "HASH", "BIN")
	case k < 38 && parserOnly:
		ts = append(ts, "RL")
	case k < 39 && parserOnly:
		if rng.Intn(4) == 0 {
			ts = append(ts, "XL")
		} else {
			ts = append(ts, "VT", atom("Q"), "VT")
		}
	default:
		ts = append(ts, atom("R"), "SP", "BANG")
		if !parserOnly {
			ts[len(ts)-3] = atom("Q")
		}
	}
	sp()

	return ts
}

// zzC15RandText draws a text of n lines.  clean = no HTML, control bytes or
// over-long lines.
func zzC15RandText(rng *rand.Rand, n, nAtoms int, parserOnly, clean bool) (ts []string) {
	ts = []string{}
	// Every fourth text has a title line at a random position and "#"-lines
	// that are not plain comments at two others.
	titleAt, cosmAt, cosmAt2 := -1, -1, -1
	if n > 0 && rng.Intn(4) == 0 {
		titleAt, cosmAt, cosmAt2 = rng.Intn(n), rng.Intn(n), rng.Intn(n)
	}

	// Every fifth text has one or two rule lines of 4095 .. 65536 bytes between
	// its short lines (never glued to another line by a bare CR: at most one
	// of them per physical line).
	longAt, longAt2 := -1, -1
	if n > 0 && rng.Intn(5) == 0 {
		longAt = rng.Intn(n)
		if rng.Intn(2) == 0 {
			longAt2 = rng.Intn(n)
		}
	}

	glued := false
	for i := 0; i < n; i++ {
		var l []string
		for {
			l = zzC15RandLine(rng, nAtoms, parserOnly)
			dirty := false
			for _, t := range l {
				if t == "HTML" || t == "BIN" || t == "XL" || t == "VT" {
					dirty = true
				}
			}

			if !clean || !dirty {
				break
			}
		}

		switch i {
		case titleAt:
			l = []string{"TITLE"}
		case cosmAt, cosmAt2:
			l = []string{"COSM"}
		}

		long := false
		if (i == longAt || i == longAt2) && !glued && (!clean || rng.Intn(4) != 0) {
			long = true
			atoms := zzC15LongAtoms
			if clean {
				atoms = atoms[:len(atoms)-1]
			}

			l = []string{zzC15Pick(rng, atoms)}
			if rng.Intn(4) == 0 {
				l = append([]string{"SP"}, l...)
			}
		}

		glued = false
		ts = append(ts, l...)
		switch e := rng.Intn(12); {
		case i == n-1 && e < 3:
			// End of input.
		case e < 8:
			ts = append(ts, "LF")
		case e < 11 || !parserOnly || long:
			ts = append(ts, "CR", "LF")
		default:
			glued = true
			// A bare CR glues this line to the next one (parser half only: the
			// refresh half probes rules through the engine, which must see one
			// rule per line).
			ts = append(ts, "CR")
		}
	}

	return ts
}

func zzC15Lines(rng *rand.Rand) (n int) {
	switch rng.Intn(10) {
	case 0:
		return 0
	case 1:
		return 40 + rng.Intn(260)
	default:
		return 1 + rng.Intn(14)
	}
}

// TestZZVerifC15ParseTrace is direction B of the parser half: random larger
// texts through the real parser, one NDJSON line each, validated by
// TraceRuleList.tla.
func TestZZVerifC15ParseTrace(t *testing.T) {
	w := zzNewWriter(t, "VERIF_OUT")
	defer w.close()

	n := 1500
	if zzGetenv("VERIF_TIER") == "thorough" {
		n = 8000
	}

	if s := zzGetenv("VERIF_N"); s != "" {
		n, _ = strconv.Atoi(s)
	}

	rng := zzC15Rng("parse-trace")
	for i := 0; i < n; i++ {
		ts := zzC15RandText(rng, zzC15Lines(rng), 9, true, rng.Intn(3) != 0)
		tb := zzC15NewTable(rng, "x")
		tb.fit(ts)
		o := zzC15RunParser(tb, ts, zzC15Chunk(rng))
		fp := o.FPOk && o.FPCount && o.FPSum && o.FPBytes && o.FPLoad && o.Written
		w.put(map[string]any{
			"t": ts, "ok": o.Ok, "rules": o.Rules, "count": o.Count, "fp": fp || !o.Ok,
			"in": o.In, "out": o.Out, "err": o.Err,
		})
	}
}

// ----------------------------------------------------------------- refresh

type zzC15Beh struct {
	K   string   `json:"k"`
	T   []string `json:"t"`
	At  int      `json:"at"`
	Arg string   `json:"arg"`
}

type zzC15File struct {
	Ex    bool       `json:"ex"`
	Rules [][]string `json:"rules"`
}

// zzC15State is the projected state: file, count, rules in force (atoms).
type zzC15State struct {
	File  map[string]zzC15File  `json:"file"`
	Count map[string]int        `json:"count"`
	Eng   map[string][][]string `json:"eng"`
	// En says which lists are enabled (status API); nil = not compared.
	En map[string]bool `json:"en,omitempty"`
}

type zzC15Act struct {
	A    string   `json:"a"`
	Mode string   `json:"mode"`
	Kind string   `json:"kind"`
	Due  []string `json:"due"`
	// List is the list whose URL a set_url request tries to change.
	List string `json:"list,omitempty"`
}

type zzC15Cfg struct {
	Enabled map[string]bool   `json:"enabled"`
	Src     map[string]string `json:"src"`
}

type zzC15Step struct {
	Act    zzC15Act            `json:"act"`
	Script map[string]zzC15Beh `json:"script"`
	Dst    zzC15State          `json:"dst"`
	Rew    []string            `json:"rew"`
	// SumChg are the lists whose remembered checksum changes in this step.
	SumChg []string `json:"sumchg"`
	// RewFree are the lists for which the replacement is not compared.
	RewFree []string `json:"rewfree"`
}

type zzC15Tour struct {
	ID    int         `json:"id"`
	Cfg   zzC15Cfg    `json:"cfg"`
	Lists []string    `json:"lists"`
	Block []string    `json:"block"`
	Atoms []string    `json:"atoms"`
	Steps []zzC15Step `json:"steps"`
	// GoOn makes the walk continue after a disagreement (isolated re-runs of
	// a known deviation, to show what it leads to).
	GoOn bool `json:"go_on"`
}

type zzC15List struct {
	name    string
	block   bool
	enabled bool
	src     string
	id      rulelist.URLFilterID
	url     string
	tb      *zzC15Table
}

// zzC15World is one real DNSFilter with its list server.
type zzC15World struct {
	rng   *rand.Rand
	dir   string
	lists []*zzC15List
	atoms []string

	srv        *httptest.Server
	closedAddr string

	mu         sync.Mutex
	script     map[string]zzC15Beh
	hits       map[string]int
	unscripted int

	d    *DNSFilter
	conf *Config
	mux  map[string]http.HandlerFunc
}

func (w *zzC15World) list(name string) (l *zzC15List) {
	for _, l = range w.lists {
		if l.name == name {
			return l
		}
	}

	return nil
}

func zzC15NewWorld(rng *rand.Rand, tour *zzC15Tour) (w *zzC15World, err error) {
	dir, err := os.MkdirTemp("", "zzc15-")
	if err != nil {
		return nil, err
	}

	w = &zzC15World{
		rng: rng, dir: dir, atoms: tour.Atoms,
		script: map[string]zzC15Beh{}, hits: map[string]int{},
	}

	err = os.MkdirAll(filepath.Join(dir, "local"), 0o755)
	if err != nil {
		return nil, err
	}

	w.srv = httptest.NewServer(http.HandlerFunc(w.serve))

	var ln net.Listener
	ln, err = net.Listen("tcp", "127.0.0.1:0")
	if err != nil {
		return nil, err
	}
	w.closedAddr = ln.Addr().String()
	_ = ln.Close()

	// One spelling of COSM for the whole world: the specification has one
	// parser policy per installation.
	cosm := zzC15Pick(rng, zzC15CosmChoices())
	for i, name := range tour.Lists {
		l := &zzC15List{
			name: name, enabled: tour.Cfg.Enabled[name], src: tour.Cfg.Src[name],
			id: rulelist.URLFilterID(i + 1), tb: zzC15NewTable(rng, name),
		}
		l.tb.m["COSM"] = cosm
		for _, b := range tour.Block {
			l.block = l.block || b == name
		}

		if l.src == "file" {
			l.url = filepath.Join(dir, "local", name+".txt")
		} else {
			l.url = w.srv.URL + "/" + name + ".txt"
		}

		w.lists = append(w.lists, l)
	}

	err = w.start()
	if err != nil {
		return nil, err
	}

	return w, nil
}

// start creates the DNSFilter over the data directory, as home does at
// start-up: New, register the handlers, EnableFilters.  The update loop is
// not started: the harness calls its body itself.
func (w *zzC15World) start() (err error) {
	w.mux = map[string]http.HandlerFunc{}
	w.conf = &Config{
		DataDir: filepath.Join(w.dir, "data"),
		HTTPClient: &http.Client{
			Timeout:   10 * time.Second,
			Transport: &zzC15Transport{w: w, base: &http.Transport{DisableKeepAlives: true}},
		},
		HTTPRegister:               func(method, url string, h http.HandlerFunc) { w.mux[method+" "+url] = h },
		ConfigModified:             func() {},
		FilteringEnabled:           true,
		ProtectionEnabled:          true,
		FiltersUpdateIntervalHours: 1,
		SafeFSPatterns:             []string{filepath.Join(w.dir, "local", "*")},
	}

	for _, l := range w.lists {
		f := FilterYAML{Enabled: l.enabled, URL: l.url, Name: "list " + l.name, Filter: Filter{ID: l.id}}
		if l.block {
			w.conf.Filters = append(w.conf.Filters, f)
		} else {
			f.white = true
			w.conf.WhitelistFilters = append(w.conf.WhitelistFilters, f)
		}
	}

	w.d, err = New(w.conf, nil)
	if err != nil {
		return err
	}

	// The state is read from the filter's own configuration: since b74d80f
	// that is a private copy, no longer the object given to New.
	w.conf = w.d.conf

	// As Start does, without starting the update loop.
	w.d.filtersInitializerChan = make(chan filtersInitializerParams, 1)
	w.d.RegisterFilteringHandlers()
	w.d.EnableFilters(false)

	return nil
}

func (w *zzC15World) restart() (err error) {
	w.d.Close()

	return w.start()
}

func (w *zzC15World) close() {
	w.d.Close()
	w.srv.Close()
	_ = os.RemoveAll(w.dir)
}

// zzC15Transport refuses the connection when the script says so.
type zzC15Transport struct {
	w    *zzC15World
	base http.RoundTripper
}

func (tr *zzC15Transport) RoundTrip(req *http.Request) (resp *http.Response, err error) {
	name := strings.TrimSuffix(strings.TrimPrefix(req.URL.Path, "/"), ".txt")

	tr.w.mu.Lock()
	beh, ok := tr.w.script[name]
	if ok && beh.K == "connError" {
		tr.w.hits[name]++
	}
	tr.w.mu.Unlock()

	if ok && beh.K == "connError" {
		var c net.Conn
		c, err = net.DialTimeout("tcp", tr.w.closedAddr, time.Second)
		if err == nil {
			_ = c.Close()
			err = fmt.Errorf("dial tcp %s: connect: connection refused", tr.w.closedAddr)
		}

		return nil, err
	}

	return tr.base.RoundTrip(req)
}

func zzC15Chunked(parts ...[]byte) (b []byte) {
	for _, p := range parts {
		if len(p) == 0 {
			continue
		}

		b = append(b, []byte(fmt.Sprintf("%x\r\n", len(p)))...)
		b = append(b, p...)
		b = append(b, '\r', '\n')
	}

	return b
}

// serve plays the scripted behaviour for one request.
func (w *zzC15World) serve(rw http.ResponseWriter, r *http.Request) {
	name := strings.TrimSuffix(strings.TrimPrefix(r.URL.Path, "/"), ".txt")

	w.mu.Lock()
	beh, ok := w.script[name]
	w.hits[name]++
	v := w.rng.Intn(1 << 20)
	if !ok {
		w.unscripted++
	}
	w.mu.Unlock()

	l := w.list(name)
	if !ok || l == nil {
		http.Error(rw, "unscripted request", http.StatusInternalServerError)

		return
	}

	full := l.tb.conc(beh.T)
	switch beh.K {
	case "ok":
		rw.Header().Set("Content-Type", "text/plain")
		if v%3 == 0 && len(full) > 1 {
			// Chunked transfer.
			cut := 1 + (v/3)%(len(full)-1)
			_, _ = rw.Write(full[:cut])
			rw.(http.Flusher).Flush()
			_, _ = rw.Write(full[cut:])
		} else {
			rw.Header().Set("Content-Length", strconv.Itoa(len(full)))
			_, _ = rw.Write(full)
		}

		return
	case "status":
		code, _ := strconv.Atoi(beh.Arg)
		rw.WriteHeader(code)
		_, _ = rw.Write(full)

		return
	}

	// Everything else is played on the raw connection.
	conn, _, err := rw.(http.Hijacker).Hijack()
	if err != nil {
		return
	}
	defer func() { _ = conn.Close() }()

	prefix := l.tb.conc(beh.T[:min(beh.At, len(beh.T))])
	var raw []byte
	hdrCL := "HTTP/1.1 200 OK\r\nContent-Type: text/plain\r\nContent-Length: " + strconv.Itoa(len(full)) + "\r\n\r\n"
	hdrCh := "HTTP/1.1 200 OK\r\nContent-Type: text/plain\r\nTransfer-Encoding: chunked\r\n\r\n"
	switch beh.K {
	case "unframedCut":
		// No Content-Length, no chunking: the body ends where the connection
		// does.
		raw = append([]byte("HTTP/1.0 200 OK\r\nContent-Type: text/plain\r\n\r\n"), prefix...)
	case "cutBeforeHeaders":
		raw = []byte("HTTP/1.1 200 OK\r\nContent-Ty")[:(v/3)%27]
	case "cutAfterHeaders":
		if beh.Arg == "chunked" {
			raw = []byte(hdrCh)
		} else {
			raw = []byte("HTTP/1.1 200 OK\r\nContent-Type: text/plain\r\nContent-Length: " + strconv.Itoa(len(full)+1) + "\r\n\r\n")
		}
	case "cutMidLine":
		next := []byte(l.tb.tok(beh.T[beh.At]))
		part := append(append([]byte{}, prefix...), next[:(len(next)+1)/2]...)
		if len(part) >= len(full) {
			part = part[:len(full)-1]
		}

		if beh.Arg == "chunked" {
			if v%2 == 0 {
				// Cut inside a chunk.
				raw = append([]byte(hdrCh), []byte(fmt.Sprintf("%x\r\n", len(full)))...)
				raw = append(raw, part...)
			} else {
				raw = append([]byte(hdrCh), zzC15Chunked(part)...)
			}
		} else {
			raw = append([]byte(hdrCL), part...)
		}
	case "cutAtLineBoundary":
		if beh.Arg == "chunked" {
			// Complete chunks, but no terminating chunk.
			half := len(prefix) / 2
			raw = append([]byte(hdrCh), zzC15Chunked(prefix[:half], prefix[half:])...)
		} else {
			raw = append([]byte(hdrCL), prefix...)
		}
	default:
		raw = []byte("HTTP/1.1 500 Internal Server Error\r\nContent-Length: 0\r\n\r\n")
	}

	_, _ = conn.Write(raw)
	if tc, isTCP := conn.(*net.TCPConn); isTCP && v%5 == 0 && beh.K != "unframedCut" {
		// Reset instead of an orderly close.
		_ = tc.SetLinger(0)
	}
}

// prepareLocal arranges the local file of a list with a file path.
func (w *zzC15World) prepareLocal(l *zzC15List, beh zzC15Beh) (err error) {
	_ = os.RemoveAll(l.url)
	switch beh.K {
	case "ok":
		return os.WriteFile(l.url, l.tb.conc(beh.T), 0o644)
	case "missingLocal":
		return nil
	case "dirLocal":
		return os.Mkdir(l.url, 0o755)
	default:
		return fmt.Errorf("behaviour %q for a local list", beh.K)
	}
}

func (w *zzC15World) path(l *zzC15List) (p string) {
	return filepath.Join(w.conf.DataDir, filterDir, strconv.FormatInt(int64(l.id), 10)+".txt")
}

func zzC15Inode(p string) (ino uint64, ok bool) {
	st, err := os.Stat(p)
	if err != nil {
		return 0, false
	}

	sys, isSys := st.Sys().(*syscall.Stat_t)
	if !isSys {
		return 0, true
	}

	return sys.Ino, true
}

// observe projects the real state.
func (w *zzC15World) observe() (s zzC15State, raw map[string]string, err error) {
	s = zzC15State{File: map[string]zzC15File{}, Count: map[string]int{}, Eng: map[string][][]string{}}
	raw = map[string]string{}

	h := w.mux[http.MethodGet+" /control/filtering/status"]
	if h == nil {
		return s, raw, fmt.Errorf("no status handler")
	}

	rec := httptest.NewRecorder()
	h(rec, httptest.NewRequest(http.MethodGet, "/control/filtering/status", nil))
	status := &filteringConfig{}
	err = json.Unmarshal(rec.Body.Bytes(), status)
	if err != nil {
		return s, raw, fmt.Errorf("status: %w", err)
	}

	counts := map[string]int{}
	s.En = map[string]bool{}
	for _, f := range append(append([]filterJSON{}, status.Filters...), status.WhitelistFilters...) {
		counts[f.URL] = int(f.RulesCount)
		for _, l := range w.lists {
			if l.url == f.URL {
				s.En[l.name] = f.Enabled
				// What a restart of this installation would read from its
				// configuration file.
				l.enabled = f.Enabled
			}
		}
	}

	setts := &Settings{FilteringEnabled: true, ProtectionEnabled: true}
	for _, l := range w.lists {
		s.Count[l.name] = counts[l.url]

		b, rerr := os.ReadFile(w.path(l))
		if rerr != nil {
			s.File[l.name] = zzC15File{Ex: false, Rules: [][]string{}}
		} else {
			s.File[l.name] = zzC15File{Ex: true, Rules: zzC15Rules(l.tb.lex(b))}
			raw[l.name] = zzC15Quote(b)
		}

		eng := [][]string{}
		for _, a := range w.atoms {
			host := "r" + a[1:] + "." + l.name + ".example"
			res, cerr := w.d.CheckHost(host, dns.TypeA, setts)
			if cerr != nil {
				return s, raw, fmt.Errorf("CheckHost: %w", cerr)
			}

			hit := false
			if l.block {
				hit = res.IsFiltered && res.Reason == FilteredBlockList
			} else {
				hit = res.Reason == NotFilteredAllowList
			}

			for _, rr := range res.Rules {
				hit = hit && rr.FilterListID == l.id
			}

			if hit {
				eng = append(eng, []string{a})
			}
		}
		s.Eng[l.name] = eng

		// Control probe: a name no rule mentions is never matched.
		res, _ := w.d.CheckHost("nomatch."+l.name+".example", dns.TypeA, setts)
		if res.Reason != NotFilteredNotFound {
			return s, raw, fmt.Errorf("control probe matched: %v", res.Reason)
		}
	}

	return s, raw, nil
}

func zzC15EngKey(e [][]string) (s string) {
	xs := []string{}
	for _, r := range e {
		xs = append(xs, strings.Join(r, " "))
	}
	sort.Strings(xs)

	return strings.Join(xs, "|")
}

// zzC15Diff lists the fields in which got differs from want.
func zzC15Diff(lists []*zzC15List, want, got *zzC15State) (diffs []string) {
	for _, l := range lists {
		// The stored form: a list without rules may be stored as an empty
		// file or as no file at all.
		wf, gf := want.File[l.name], got.File[l.name]
		if !zzC15SameRules(wf.Rules, gf.Rules) {
			diffs = append(diffs, "file:"+l.name)
		}

		// A negative count = not compared (a disabled list shows none).
		if want.Count[l.name] >= 0 && want.Count[l.name] != got.Count[l.name] {
			diffs = append(diffs, "count:"+l.name)
		}

		if want.En != nil && want.En[l.name] != got.En[l.name] {
			diffs = append(diffs, "en:"+l.name)
		}

		if zzC15EngKey(want.Eng[l.name]) != zzC15EngKey(got.Eng[l.name]) {
			diffs = append(diffs, "eng:"+l.name)
		}
	}

	return diffs
}

type zzC15StepObs struct {
	State      zzC15State        `json:"state"`
	Rew        []string          `json:"rew"`
	SumChg     []string          `json:"sumchg"`
	Hits       map[string]int    `json:"hits"`
	Raw        map[string]string `json:"raw"`
	Unscripted int               `json:"unscripted"`
	HTTPCode   int               `json:"http_code,omitempty"`
}

// step performs one action on the real object and observes.
func (w *zzC15World) step(act *zzC15Act, script map[string]zzC15Beh) (o *zzC15StepObs, err error) {
	w.mu.Lock()
	w.script = script
	w.hits = map[string]int{}
	w.unscripted = 0
	w.mu.Unlock()

	for name, beh := range script {
		l := w.list(name)
		if l == nil {
			return nil, fmt.Errorf("script for unknown list %q", name)
		}

		if l.src == "file" {
			err = w.prepareLocal(l, beh)
			if err != nil {
				return nil, err
			}

			w.hits[name]++
		}
	}

	type ino struct {
		n  uint64
		ok bool
	}
	before := map[string]ino{}
	for _, l := range w.lists {
		n, ok := zzC15Inode(w.path(l))
		before[l.name] = ino{n, ok}
	}

	sumsBefore := w.checksums()

	o = &zzC15StepObs{Rew: []string{}, SumChg: []string{}}
	switch {
	case act.A == "restart":
		err = w.restart()
		if err != nil {
			return nil, err
		}
	case act.A == "refresh" && act.Mode == "forced":
		h := w.mux[http.MethodPost+" /control/filtering/refresh"]
		if h == nil {
			return nil, fmt.Errorf("no refresh handler")
		}

		body := fmt.Sprintf(`{"whitelist":%t}`, act.Kind == "allow")
		rec := httptest.NewRecorder()
		h(rec, httptest.NewRequest(http.MethodPost, "/control/filtering/refresh", strings.NewReader(body)))
		o.HTTPCode = rec.Code
	case act.A == "seturl" || act.A == "disable" || act.A == "enable":
		// seturl: the admin points the list at another location (same server,
		// same script: the download from there fails); disable / enable: same
		// URL, the enabled flag changed.  All through the real handler.
		l := w.list(act.List)
		h := w.mux[http.MethodPost+" /control/filtering/set_url"]
		if l == nil || h == nil {
			return nil, fmt.Errorf("no set_url handler or list %q", act.List)
		}

		body, _ := json.Marshal(map[string]any{
			"url": l.url, "whitelist": !l.block,
			"data": map[string]any{
				"name": "list " + l.name, "enabled": act.A != "disable",
				"url": map[bool]string{true: l.url + "?moved=1", false: l.url}[act.A == "seturl"],
			},
		})
		rec := httptest.NewRecorder()
		h(rec, httptest.NewRequest(http.MethodPost, "/control/filtering/set_url", bytes.NewReader(body)))
		o.HTTPCode = rec.Code

		// The handler asks the update loop to rebuild the engines; the loop
		// is not running here, so its body is run for it.
		select {
		case p := <-w.d.filtersInitializerChan:
			err = w.d.initFiltering(p.allowFilters, p.blockFilters)
			if err != nil {
				return nil, err
			}
		default:
		}
	case act.A == "refresh" && act.Mode == "sched":
		// Time passes: the lists in due were last updated two intervals ago,
		// the others just now.
		now := time.Now()
		due := map[string]bool{}
		for _, n := range act.Due {
			due[n] = true
		}

		w.conf.filtersMu.Lock()
		for _, fs := range []*[]FilterYAML{&w.conf.Filters, &w.conf.WhitelistFilters} {
			for i := range *fs {
				f := &(*fs)[i]
				for _, l := range w.lists {
					if l.url != f.URL {
						continue
					}

					if due[l.name] {
						f.LastUpdated = now.Add(-2 * time.Hour)
					} else {
						f.LastUpdated = now
					}
				}
			}
		}
		w.conf.filtersMu.Unlock()

		_ = w.d.periodicallyRefreshFilters(time.Second)
	default:
		return nil, fmt.Errorf("unknown action %+v", act)
	}

	o.State, o.Raw, err = w.observe()
	if err != nil {
		return nil, err
	}

	for _, l := range w.lists {
		n, ok := zzC15Inode(w.path(l))
		if b := before[l.name]; b.ok != ok || b.n != n {
			o.Rew = append(o.Rew, l.name)
		}
	}

	sumsAfter := w.checksums()
	for _, l := range w.lists {
		if sumsBefore[l.name] != sumsAfter[l.name] {
			o.SumChg = append(o.SumChg, l.name)
		}
	}

	w.mu.Lock()
	o.Hits = w.hits
	o.Unscripted = w.unscripted
	w.mu.Unlock()

	return o, nil
}

// checksums reads (never writes) the checksum the DNSFilter remembers per
// list: what a refresh recorded, or what start-up computed from the stored
// file.
func (w *zzC15World) checksums() (sums map[string]uint32) {
	sums = map[string]uint32{}

	w.conf.filtersMu.RLock()
	defer w.conf.filtersMu.RUnlock()

	for _, fs := range [][]FilterYAML{w.conf.Filters, w.conf.WhitelistFilters} {
		for i := range fs {
			for _, l := range w.lists {
				if l.url == fs[i].URL {
					sums[l.name] = fs[i].checksum
				}
			}
		}
	}

	return sums
}

func zzC15Minus(a, b []string) (c []string) {
	for _, x := range a {
		keep := true
		for _, y := range b {
			keep = keep && x != y
		}

		if keep {
			c = append(c, x)
		}
	}

	return c
}

func zzC15SameSet(a, b []string) (ok bool) {
	a, b = append([]string{}, a...), append([]string{}, b...)
	sort.Strings(a)
	sort.Strings(b)

	return strings.Join(a, ",") == strings.Join(b, ",")
}

// zzC15Contact checks that exactly the scripted lists were contacted (a
// sanity check of the harness, not part of the property).
func zzC15Contact(w *zzC15World, script map[string]zzC15Beh, o *zzC15StepObs) (diffs []string) {
	for _, l := range w.lists {
		_, want := script[l.name]
		if (o.Hits[l.name] > 0) != want {
			diffs = append(diffs, "hits:"+l.name)
		}
	}

	return diffs
}

// zzC15RunTour walks one tour; every step is compared.
func zzC15RunTour(tour *zzC15Tour, out *zzWriter, outMu *sync.Mutex) (steps, bad int) {
	put := func(v any) {
		outMu.Lock()
		defer outMu.Unlock()

		out.put(v)
	}

	rng := zzC15Rng("tour-" + strconv.Itoa(tour.ID))
	w, err := zzC15NewWorld(rng, tour)
	if err != nil {
		put(map[string]any{"kind": "skip", "tour": tour.ID, "err": err.Error()})

		return 0, 0
	}
	defer w.close()

	for i := range tour.Steps {
		st := &tour.Steps[i]
		o, serr := w.step(&st.Act, st.Script)
		if serr != nil {
			put(map[string]any{"kind": "skip", "tour": tour.ID, "step": i, "err": serr.Error()})

			return steps, bad
		}

		steps++
		diffs := zzC15Diff(w.lists, &st.Dst, &o.State)
		if st.Act.A != "restart" && !zzC15SameSet(zzC15Minus(st.Rew, st.RewFree), zzC15Minus(o.Rew, st.RewFree)) {
			diffs = append(diffs, "rew")
		}
		if !zzC15SameSet(st.SumChg, o.SumChg) {
			// The remembered checksum changes exactly when the specification's
			// does; in particular a restart, which recomputes it from the stored
			// file, does not change it.
			diffs = append(diffs, "sum")
		}
		diffs = append(diffs, zzC15Contact(w, st.Script, o)...)
		if len(diffs) == 0 {
			continue
		}

		bad++
		row := map[string]any{
			"kind": "bad", "tour": tour.ID, "step": i, "diffs": diffs, "act": st.Act, "script": st.Script,
			"want": st.Dst, "want_rew": st.Rew, "want_sumchg": st.SumChg, "got": o,
		}

		put(row)
		if tour.GoOn {
			continue
		}

		put(map[string]any{"kind": "truncated", "tour": tour.ID, "step": i, "lost": len(tour.Steps) - i - 1})

		return steps, bad
	}

	return steps, bad
}

// TestZZVerifC15Tours is direction A of the refresh half.
func TestZZVerifC15Tours(t *testing.T) {
	log.SetOutput(io.Discard)

	out := zzNewWriter(t, "VERIF_OUT")
	defer out.close()

	tours := []*zzC15Tour{}
	zzReadNDJSON(t, "VERIF_IN", func(line []byte) {
		tour := &zzC15Tour{}
		if err := json.Unmarshal(line, tour); err != nil {
			t.Fatalf("bad tour: %v", err)
		}

		tours = append(tours, tour)
	})

	par := 4
	if s := zzGetenv("VERIF_PAR"); s != "" {
		par, _ = strconv.Atoi(s)
	}

	var outMu, cntMu sync.Mutex
	steps, bad := 0, 0
	ch := make(chan *zzC15Tour)
	wg := &sync.WaitGroup{}
	for i := 0; i < par; i++ {
		wg.Add(1)
		go func() {
			defer wg.Done()

			for tour := range ch {
				s, b := zzC15RunTour(tour, out, &outMu)
				cntMu.Lock()
				steps += s
				bad += b
				cntMu.Unlock()
			}
		}()
	}

	for _, tour := range tours {
		ch <- tour
	}
	close(ch)
	wg.Wait()

	out.put(map[string]any{"kind": "summary", "tours": len(tours), "steps": steps, "bad": bad})
}

// ------------------------------------------------------ refresh, direction B

func zzC15RandBeh(rng *rand.Rand, l *zzC15List, prev []string, nAtoms int) (b zzC15Beh) {
	text := func(clean bool) (ts []string) {
		if len(prev) > 0 && rng.Intn(3) == 0 {
			// The previous text again, possibly with other comments around it:
			// same rules, same checksum.
			ts = append([]string{}, prev...)
			if rng.Intn(2) == 0 {
				ts = append([]string{"HASH", "LF", "SP", "CR", "LF"}, ts...)
			}

			return ts
		}

		return zzC15RandText(rng, zzC15Lines(rng), nAtoms, false, clean)
	}

	lfs := func(ts []string) (idx []int) {
		for i, t := range ts {
			if t == "LF" {
				idx = append(idx, i+1)
			}
		}

		return idx
	}

	b = zzC15Beh{T: []string{}}
	if l.src == "file" {
		switch rng.Intn(6) {
		case 0:
			b.K = "missingLocal"
		case 1:
			b.K = "dirLocal"
		default:
			b.K, b.T = "ok", text(rng.Intn(5) != 0)
		}

		return b
	}

	switch k := rng.Intn(20); {
	case k < 9:
		b.K, b.T = "ok", text(rng.Intn(5) != 0)
	case k < 10:
		b.K = "connError"
	case k < 11:
		b.K = "cutBeforeHeaders"
	case k < 13:
		b.K, b.T, b.Arg = "status", text(true), []string{"404", "500", "503", "403", "206", "203", "304", "201"}[rng.Intn(8)]
		if b.Arg == "304" {
			b.T = []string{}
		}
	case k < 14:
		b.K, b.T, b.Arg = "cutAfterHeaders", text(true), []string{"cl", "chunked"}[rng.Intn(2)]
	default:
		b.T = text(true)
		b.Arg = []string{"cl", "chunked"}[rng.Intn(2)]
		idx := lfs(b.T)
		switch {
		case len(b.T) == 0:
			b.K = "cutAfterHeaders"
		case k < 17:
			// Mid-line: any position whose next token is not a line ending.
			cands := []int{}
			for i, t := range b.T {
				if t != "LF" && t != "CR" {
					cands = append(cands, i)
				}
			}

			if len(cands) == 0 {
				b.K = "cutAfterHeaders"
			} else {
				b.K, b.At = "cutMidLine", cands[rng.Intn(len(cands))]
			}
		case k < 19:
			b.K = "cutAtLineBoundary"
			if b.Arg == "cl" {
				for len(idx) > 0 && idx[len(idx)-1] >= len(b.T) {
					idx = idx[:len(idx)-1]
				}
			}

			if len(idx) == 0 {
				b.K = "cutAfterHeaders"
			} else {
				b.At = idx[rng.Intn(len(idx))]
			}
		default:
			if len(idx) == 0 {
				b.K = "ok"
			} else {
				b.K, b.At, b.Arg = "unframedCut", idx[rng.Intn(len(idx))], ""
			}
		}
	}

	return b
}

// TestZZVerifC15RefreshTrace is direction B of the refresh half: random
// histories over four lists with larger random texts, recorded for
// TraceFilterRefresh.tla.
func TestZZVerifC15RefreshTrace(t *testing.T) {
	log.SetOutput(io.Discard)

	out := zzNewWriter(t, "VERIF_OUT")
	defer out.close()

	nTraces, nSteps := 30, 30
	if zzGetenv("VERIF_TIER") == "thorough" {
		nTraces, nSteps = 120, 45
	}

	if s := zzGetenv("VERIF_N"); s != "" {
		nTraces, _ = strconv.Atoi(s)
	}

	only := map[int]bool{}
	for _, s := range strings.Split(zzGetenv("VERIF_ONLY"), ",") {
		if n, err := strconv.Atoi(s); err == nil {
			only[n] = true
		}
	}

	shard, shards := 0, 1
	if s := zzGetenv("VERIF_SHARD"); s != "" {
		_, _ = fmt.Sscanf(s, "%d/%d", &shard, &shards)
	}

	const nAtoms = 6
	atoms := []string{}
	for i := 1; i <= nAtoms; i++ {
		atoms = append(atoms, "R"+strconv.Itoa(i))
	}

	names := []string{"b1", "b2", "a1", "a2"}
	for tr := 0; tr < nTraces; tr++ {
		if len(only) > 0 && !only[tr] || tr%shards != shard {
			continue
		}

		rng := zzC15Rng("refresh-trace-" + strconv.Itoa(tr))
		tour := &zzC15Tour{
			ID: tr, Lists: names, Block: []string{"b1", "b2"}, Atoms: atoms,
			Cfg: zzC15Cfg{Enabled: map[string]bool{}, Src: map[string]string{}},
		}
		for _, n := range names {
			tour.Cfg.Enabled[n] = rng.Intn(8) != 0
			tour.Cfg.Src[n] = "http"
			if rng.Intn(6) == 0 {
				tour.Cfg.Src[n] = "file"
			}
		}

		w, err := zzC15NewWorld(rng, tour)
		if err != nil {
			t.Fatalf("world: %v", err)
		}

		out.put(map[string]any{"ev": "boot", "trace": tr, "cfg": tour.Cfg})

		prev := map[string][]string{}
		for i := 0; i < nSteps; i++ {
			act := &zzC15Act{A: "refresh", Due: []string{}}
			switch k := rng.Intn(10); {
			case k == 0:
				act.A = "restart"
			case k < 5:
				act.Mode, act.Kind = "forced", []string{"block", "allow"}[rng.Intn(2)]
			default:
				act.Mode, act.Kind = "sched", "both"
				for _, n := range names {
					if rng.Intn(3) != 0 {
						act.Due = append(act.Due, n)
					}
				}
			}

			script := map[string]zzC15Beh{}
			if act.A == "refresh" {
				for _, l := range w.lists {
					sel := l.enabled
					if act.Mode == "forced" {
						sel = sel && l.block == (act.Kind == "block")
					} else {
						isDue := false
						for _, n := range act.Due {
							isDue = isDue || n == l.name
						}
						sel = sel && isDue
					}

					if !sel {
						continue
					}

					b := zzC15RandBeh(rng, l, prev[l.name], nAtoms)
					script[l.name] = b
					if b.K == "ok" {
						prev[l.name] = b.T
					}
				}
			}

			o, serr := w.step(act, script)
			if serr != nil {
				t.Fatalf("trace %d step %d: %v", tr, i, serr)
			}

			contact := zzC15Contact(w, script, o)
			out.put(map[string]any{
				"ev": "step", "trace": tr, "i": i, "act": act, "script": script,
				"obs": o.State, "rew": o.Rew, "sumchg": o.SumChg, "contact_ok": len(contact) == 0, "raw": o.Raw,
			})
		}

		w.close()
	}
}
