package dnsforward

// G03 conformance harness, server level: what the DNS server ANSWERS when
// safe search decides a question.
//
// The response vectors of specs/SafeSearch.tla (RespSpec: global settings x
// persistent client x protection x requester x name -> per query type the
// admissible responses) are replayed into ONE long-lived real Server
// (NewServer + Prepare; real filtering.DNSFilter with the real safe search
// engine; real client.Storage; recording mock upstream).  Between scenario
// configurations the server is really reconfigured: PUT
// /control/safesearch/settings, client add / update / delete in the storage,
// POST /control/protection.  Questions go through Server.handleDNSRequest.
//
// The observation is projected onto the specification's response vocabulary:
// which name the upstream was asked (upq), the target of a leading CNAME
// record owned by the question name (cname), the single locally generated
// address (addr), whether the rest of the answer section is exactly what the
// upstream returned (fromup); plus, always required: NOERROR and the ORIGINAL
// question in the question section.

import (
	"bytes"
	"context"
	"encoding/json"
	"fmt"
	"math/rand"
	"net"
	"net/http"
	"net/http/httptest"
	"net/netip"
	"sort"
	"strings"
	"sync"
	"testing"
	"time"

	"github.com/AdguardTeam/AdGuardHome/internal/client"
	"github.com/AdguardTeam/AdGuardHome/internal/filtering"
	"github.com/AdguardTeam/AdGuardHome/internal/filtering/safesearch"
	"github.com/AdguardTeam/AdGuardHome/internal/schedule"
	"github.com/AdguardTeam/dnsproxy/proxy"
	"github.com/AdguardTeam/dnsproxy/upstream"
	"github.com/AdguardTeam/golibs/logutil/slogutil"
	"github.com/AdguardTeam/golibs/netutil"
	"github.com/AdguardTeam/golibs/timeutil"
	"github.com/miekg/dns"
)

type zzG03Conf struct {
	En bool     `json:"en"`
	Sv []string `json:"sv"`
}

type zzG03Client struct {
	Known bool      `json:"known"`
	Own   bool      `json:"own"`
	Conf  zzG03Conf `json:"conf"`
}

type zzG03Resp struct {
	Upq    string `json:"upq"`
	Cname  string `json:"cname"`
	Addr   string `json:"addr"`
	FromUp bool   `json:"fromup"`
}

type zzG03RespVec struct {
	T    string                 `json:"t"`
	G    zzG03Conf              `json:"g"`
	Cl   zzG03Client            `json:"cl"`
	Prot bool                   `json:"prot"`
	Who  string                 `json:"who"`
	Q    string                 `json:"q"`
	LC   string                 `json:"lc"`
	O    map[string][]zzG03Resp `json:"o"`
}

var zzG03AllSvcs = []string{"bing", "duckduckgo", "ecosia", "google", "pixabay", "yandex", "youtube"}

var zzG03Qtypes = map[string]uint16{
	"A": dns.TypeA, "AAAA": dns.TypeAAAA, "HTTPS": dns.TypeHTTPS, "TXT": dns.TypeTXT,
	"CNAME": dns.TypeCNAME, "MX": dns.TypeMX, "ANY": dns.TypeANY, "SVCB": dns.TypeSVCB,
}

const (
	zzG03KidIP   = "192.0.2.5"
	zzG03OtherIP = "192.0.2.77"
)

func zzG03Field(c *filtering.SafeSearchConfig, svc string) (p *bool) {
	switch svc {
	case "bing":
		return &c.Bing
	case "duckduckgo":
		return &c.DuckDuckGo
	case "ecosia":
		return &c.Ecosia
	case "google":
		return &c.Google
	case "pixabay":
		return &c.Pixabay
	case "yandex":
		return &c.Yandex
	case "youtube":
		return &c.YouTube
	default:
		panic("zzG03: service unknown to the harness: " + svc)
	}
}

func zzG03Conc(c zzG03Conf) (fc filtering.SafeSearchConfig) {
	fc.Enabled = c.En
	for _, s := range c.Sv {
		*zzG03Field(&fc, s) = true
	}

	return fc
}

// zzG03Up is the recording upstream.  Its answer is a function of the
// question only.
type zzG03Up struct {
	mu    sync.Mutex
	calls []dns.Question
	last  []dns.RR
}

func zzG03UpAnswer(q dns.Question) (ans []dns.RR) {
	hdr := dns.RR_Header{Name: q.Name, Rrtype: q.Qtype, Class: dns.ClassINET, Ttl: 300}
	switch q.Qtype {
	case dns.TypeA:
		return []dns.RR{&dns.A{Hdr: hdr, A: net.IP{203, 0, 113, 7}}, &dns.A{Hdr: hdr, A: net.IP{203, 0, 113, 8}}}
	case dns.TypeAAAA:
		return []dns.RR{&dns.AAAA{Hdr: hdr, AAAA: net.ParseIP("2001:db8::7")}}
	case dns.TypeTXT:
		return []dns.RR{&dns.TXT{Hdr: hdr, Txt: []string{"from upstream"}}}
	case dns.TypeMX:
		return []dns.RR{&dns.MX{Hdr: hdr, Preference: 10, Mx: "mail.example.net."}}
	case dns.TypeHTTPS:
		return []dns.RR{&dns.HTTPS{SVCB: dns.SVCB{Hdr: hdr, Priority: 1, Target: ".", Value: []dns.SVCBKeyValue{&dns.SVCBAlpn{Alpn: []string{"h2"}}}}}}
	case dns.TypeANY:
		hdr.Rrtype = dns.TypeA

		return []dns.RR{&dns.A{Hdr: hdr, A: net.IP{203, 0, 113, 9}}}
	default:
		return nil
	}
}

func (u *zzG03Up) Exchange(req *dns.Msg) (resp *dns.Msg, err error) {
	u.mu.Lock()
	defer u.mu.Unlock()

	u.calls = append(u.calls, req.Question[0])
	resp = (&dns.Msg{}).SetReply(req)
	resp.RecursionAvailable = true
	resp.Answer = zzG03UpAnswer(req.Question[0])
	u.last = make([]dns.RR, len(resp.Answer))
	for i, rr := range resp.Answer {
		u.last[i] = dns.Copy(rr)
	}

	return resp, nil
}

func (u *zzG03Up) Address() (addr string) { return "zz-verif-g03-mock" }
func (u *zzG03Up) Close() (err error)     { return nil }

type zzG03DHCP struct{}

func (zzG03DHCP) HostByIP(netip.Addr) (host string) { return "" }
func (zzG03DHCP) IPByHost(string) (ip netip.Addr)   { return netip.Addr{} }
func (zzG03DHCP) Enabled() (ok bool)                { return false }

type zzG03Srv struct {
	s        *Server
	f        *filtering.DNSFilter
	st       *client.Storage
	up       *zzG03Up
	handlers map[string]http.HandlerFunc
	reqID    uint64
	prot     bool
	g        zzG03Conf
	cl       zzG03Client
	reconf   int
}

// zzG03Persistent builds the persistent client the way package home does: its
// own engine exists exactly when its own safe search is enabled.
func zzG03Persistent(c zzG03Client, filt bool) (p *client.Persistent, err error) {
	conf := zzG03Conc(c.Conf)
	p = &client.Persistent{
		Name: "kid", UID: client.MustNewUID(),
		UseOwnSettings: c.Own, FilteringEnabled: filt, SafeSearchConf: conf,
		BlockedServices: &filtering.BlockedServices{Schedule: schedule.EmptyWeekly()},
	}
	if err = p.SetIDs([]string{zzG03KidIP}); err != nil {
		return nil, err
	}

	if conf.Enabled {
		var ss *safesearch.Default
		ss, err = safesearch.NewDefault(context.Background(), &safesearch.DefaultConfig{
			Logger: slogutil.NewDiscardLogger(), ServicesConfig: conf, ClientName: "kid",
			CacheSize: 1 << 20, CacheTTL: 30 * time.Minute,
		})
		if err != nil {
			return nil, err
		}

		p.SafeSearch = ss
	}

	return p, nil
}

func zzG03Build(g zzG03Conf, cl zzG03Client, dir string, rng *rand.Rand) (z *zzG03Srv, err error) {
	ctx := context.Background()
	z = &zzG03Srv{handlers: map[string]http.HandlerFunc{}, up: &zzG03Up{}, prot: true, g: g, cl: cl}
	var initial []*client.Persistent
	if cl.Known {
		var p *client.Persistent
		if p, err = zzG03Persistent(cl, rng.Intn(2) == 0); err != nil {
			return nil, err
		}

		initial = append(initial, p)
	}

	z.st, err = client.NewStorage(ctx, &client.StorageConfig{
		Logger: slogutil.NewDiscardLogger(), Clock: timeutil.SystemClock{}, DHCP: client.EmptyDHCP{},
		InitialClients: initial,
	})
	if err != nil {
		return nil, fmt.Errorf("client storage: %w", err)
	}

	gconf := zzG03Conc(g)
	glob, err := safesearch.NewDefault(ctx, &safesearch.DefaultConfig{
		Logger: slogutil.NewDiscardLogger(), ServicesConfig: gconf, CacheSize: 1 << 20, CacheTTL: 30 * time.Minute,
	})
	if err != nil {
		return nil, fmt.Errorf("global engine: %w", err)
	}

	filt := rng.Intn(4) != 0
	fc := &filtering.Config{
		SafeSearch:           glob,
		SafeSearchConf:       gconf,
		SafeSearchCacheSize:  1 << 20,
		CacheTime:            30,
		ProtectionEnabled:    true,
		FilteringEnabled:     filt,
		BlockingMode:         filtering.BlockingModeDefault,
		BlockedResponseTTL:   10,
		BlockedServices:      &filtering.BlockedServices{Schedule: schedule.EmptyWeekly()},
		ApplyClientFiltering: z.st.ApplyClientFiltering,
		DataDir:              dir,
		ConfigModified:       func() {},
		HTTPRegister: func(_, path string, h http.HandlerFunc) {
			z.handlers[path] = h
		},
	}
	z.f, err = filtering.New(fc, nil)
	if err != nil {
		return nil, fmt.Errorf("filtering.New: %w", err)
	}

	z.f.SetEnabled(filt)
	z.f.RegisterFilteringHandlers()

	z.s, err = NewServer(DNSCreateParams{
		DHCPServer: zzG03DHCP{}, DNSFilter: z.f,
		PrivateNets: netutil.SubnetSetFunc(netutil.IsLocallyServed),
		Logger:      slogutil.NewDiscardLogger(),
	})
	if err != nil {
		return nil, fmt.Errorf("NewServer: %w", err)
	}

	sc := &ServerConfig{
		UDPListenAddrs: []*net.UDPAddr{{IP: net.IP{127, 0, 0, 1}}},
		TCPListenAddrs: []*net.TCPAddr{{IP: net.IP{127, 0, 0, 1}}},
		TLSConf:        &TLSConfig{},
		Config: Config{
			UpstreamMode:     UpstreamModeLoadBalance,
			EDNSClientSubnet: &EDNSClientSubnet{},
			ClientsContainer: z.st,
		},
		ConfigModified: func() {},
		ServePlainDNS:  true,
	}
	if err = z.s.Prepare(sc); err != nil {
		return nil, fmt.Errorf("Prepare: %w", err)
	}

	z.s.conf.UpstreamConfig.Upstreams = []upstream.Upstream{z.up}

	return z, nil
}

func (z *zzG03Srv) close() {
	z.f.Close()
	_ = z.st.Shutdown(context.Background())
}

func (z *zzG03Srv) call(h http.HandlerFunc, method, path string, body any) (err error) {
	b, _ := json.Marshal(body)
	r := httptest.NewRequest(method, path, bytes.NewReader(b))
	r.Header.Set("Content-Type", "application/json")
	w := httptest.NewRecorder()
	if h == nil {
		return fmt.Errorf("no handler for %s", path)
	}

	h(w, r)
	if w.Code != http.StatusOK {
		return fmt.Errorf("%s: http %d: %s", path, w.Code, strings.TrimSpace(w.Body.String()))
	}

	return nil
}

func zzG03SameConf(a, b zzG03Conf) (ok bool) {
	x, y := append([]string{}, a.Sv...), append([]string{}, b.Sv...)
	sort.Strings(x)
	sort.Strings(y)

	return a.En == b.En && strings.Join(x, ",") == strings.Join(y, ",")
}

// reconfigure brings the live server to (g, cl, prot) through its admin
// operations.
func (z *zzG03Srv) reconfigure(g zzG03Conf, cl zzG03Client, prot bool, rng *rand.Rand) (err error) {
	if !zzG03SameConf(z.g, g) {
		path := "/control/safesearch/settings"
		if err = z.call(z.handlers[path], http.MethodPut, path, zzG03Conc(g)); err != nil {
			return err
		}

		z.g = g
		z.reconf++
	}

	if z.cl.Known != cl.Known || z.cl.Own != cl.Own || !zzG03SameConf(z.cl.Conf, cl.Conf) {
		ctx := context.Background()
		switch {
		case !cl.Known:
			if !z.st.RemoveByName(ctx, "kid") {
				return fmt.Errorf("removing the client: not found")
			}
		default:
			var p *client.Persistent
			if p, err = zzG03Persistent(cl, rng.Intn(2) == 0); err != nil {
				return err
			}

			if z.cl.Known {
				err = z.st.Update(ctx, "kid", p)
			} else {
				err = z.st.Add(ctx, p)
			}
			if err != nil {
				return err
			}
		}

		z.cl = cl
		z.reconf++
	}

	if z.prot != prot {
		if err = z.call(z.s.handleSetProtection, http.MethodPost, "/control/protection", map[string]any{"enabled": prot}); err != nil {
			return err
		}

		z.prot = prot
		z.reconf++
	}

	return nil
}

func zzG03NoTTL(rr dns.RR) (s string) {
	c := dns.Copy(rr)
	c.Header().Ttl = 0

	return strings.ToLower(c.String())
}

func zzG03Name(n string) (l string) { return strings.ToLower(strings.TrimSuffix(n, ".")) }

// query sends one question through handleDNSRequest and abstracts the reply.
func (z *zzG03Srv) query(who, qname, qt string, rng *rand.Rand) (got zzG03Resp, problem, concrete string) {
	m := &dns.Msg{}
	m.SetQuestion(dns.Fqdn(qname), zzG03Qtypes[qt])
	m.Id = uint16(rng.Intn(1 << 16))
	z.up.mu.Lock()
	z.up.calls, z.up.last = nil, nil
	z.up.mu.Unlock()

	ip := zzG03OtherIP
	if who == "client" {
		ip = zzG03KidIP
	}

	z.reqID++
	pctx := &proxy.DNSContext{
		Proto: proxy.ProtoUDP, Req: m, RequestID: z.reqID,
		Addr: netip.AddrPortFrom(netip.MustParseAddr(ip), uint16(1024+rng.Intn(60000))),
	}
	herr := z.s.handleDNSRequest(z.s.dnsProxy, pctx)
	res := pctx.Res
	concrete = fmt.Sprintf("%s %s from %s", qname, qt, ip)
	if herr != nil || res == nil {
		return got, fmt.Sprintf("no response (err=%v)", herr), concrete
	}

	z.up.mu.Lock()
	calls, last := z.up.calls, z.up.last
	z.up.mu.Unlock()

	var strs []string
	for _, rr := range res.Answer {
		strs = append(strs, rr.String())
	}

	concrete += fmt.Sprintf(" -> rcode=%s question=%v answer=%q upstream asked %v", dns.RcodeToString[res.Rcode], res.Question, strs, calls)
	if res.Rcode != dns.RcodeSuccess {
		return got, "rcode " + dns.RcodeToString[res.Rcode], concrete
	}

	if len(res.Question) != 1 || !strings.EqualFold(res.Question[0].Name, dns.Fqdn(qname)) || res.Question[0].Qtype != zzG03Qtypes[qt] {
		return got, "the question section is not the original question", concrete
	}

	switch len(calls) {
	case 0:
	case 1:
		got.Upq = zzG03Name(calls[0].Name)
		if calls[0].Qtype != zzG03Qtypes[qt] {
			return got, "the upstream was asked another type", concrete
		}
	default:
		return got, "the upstream was asked more than once", concrete
	}

	rest := res.Answer
	if len(rest) > 0 {
		if c, ok := rest[0].(*dns.CNAME); ok && strings.EqualFold(c.Hdr.Name, dns.Fqdn(qname)) && qt != "CNAME" {
			got.Cname = zzG03Name(c.Target)
			rest = rest[1:]
		}
	}

	if len(calls) == 1 {
		got.FromUp = len(rest) == len(last)
		for i := 0; got.FromUp && i < len(rest); i++ {
			got.FromUp = zzG03NoTTL(rest[i]) == zzG03NoTTL(last[i])
		}

		if !got.FromUp {
			return got, "the answer section is not the upstream's answer", concrete
		}

		return got, "", concrete
	}

	switch len(rest) {
	case 0:
	case 1:
		if !strings.EqualFold(rest[0].Header().Name, dns.Fqdn(qname)) {
			return got, "local answer for another owner name", concrete
		}

		switch rr := rest[0].(type) {
		case *dns.A:
			got.Addr = rr.A.String()
		case *dns.AAAA:
			got.Addr = rr.AAAA.String()
		default:
			return got, "local answer of an unexpected type", concrete
		}

		if rest[0].Header().Rrtype != zzG03Qtypes[qt] {
			return got, "local answer of another type than asked", concrete
		}
	default:
		return got, "several local answer records", concrete
	}

	return got, "", concrete
}

func zzG03RespAdmissible(got zzG03Resp, problem string, want []zzG03Resp) (ok bool) {
	if problem != "" {
		return false
	}

	for _, w := range want {
		if w == got {
			return true
		}
	}

	return false
}

// TestZZVerifG03Resp replays the response vectors.
func TestZZVerifG03Resp(t *testing.T) {
	w := zzNewWriter(t, "VERIF_OUT")
	defer w.close()

	rng := rand.New(rand.NewSource(zzSeed()))
	groups := map[string][]*zzG03RespVec{}
	var keys []string
	zzReadNDJSON(t, "VERIF_IN", func(line []byte) {
		v := &zzG03RespVec{}
		if err := json.Unmarshal(line, v); err != nil {
			t.Fatalf("bad vector: %v", err)
		}

		k, _ := json.Marshal([]any{v.G, v.Cl, v.Prot})
		if _, ok := groups[string(k)]; !ok {
			keys = append(keys, string(k))
		}

		groups[string(k)] = append(groups[string(k)], v)
	})
	if len(keys) == 0 {
		t.Fatalf("no vectors")
	}

	dir := t.TempDir()
	first := groups[keys[0]][0]
	live, err := zzG03Build(first.G, first.Cl, dir, rng)
	if err != nil {
		t.Fatalf("build: %v", err)
	}
	defer live.close()

	n, evals, bad, flaky := 0, 0, 0, 0
	var qts []string
	rng.Shuffle(len(keys), func(i, j int) { keys[i], keys[j] = keys[j], keys[i] })
	for _, k := range keys {
		vs := groups[k]
		if err = live.reconfigure(vs[0].G, vs[0].Cl, vs[0].Prot, rng); err != nil {
			t.Fatalf("reconfiguring: %v", err)
		}

		rng.Shuffle(len(vs), func(i, j int) { vs[i], vs[j] = vs[j], vs[i] })
		for _, v := range vs {
			n++
			if qts == nil {
				for qt := range v.O {
					qts = append(qts, qt)
				}
				sort.Strings(qts)
			}

			for _, qt := range qts {
				evals++
				want := v.O[qt]
				got, problem, conc := live.query(v.Who, v.Q, qt, rng)
				if zzG03RespAdmissible(got, problem, want) {
					continue
				}

				// Reproduce: again on the live server, and alone on a server
				// built directly in this configuration.
				got2, problem2, conc2 := live.query(v.Who, v.Q, qt, rng)
				alone, aerr := zzG03Build(v.G, v.Cl, t.TempDir(), rand.New(rand.NewSource(1)))
				if aerr != nil {
					t.Fatalf("build: %v", aerr)
				}

				if aerr = alone.reconfigure(v.G, v.Cl, v.Prot, rng); aerr != nil {
					t.Fatalf("reconfiguring: %v", aerr)
				}

				got3, problem3, conc3 := alone.query(v.Who, v.Q, qt, rng)
				alone.close()
				rec := map[string]any{"leg": "resp", "g": v.G, "cl": v.Cl, "prot": v.Prot, "who": v.Who, "q": v.Q, "lc": v.LC, "qt": qt, "want": want}
				switch {
				case !zzG03RespAdmissible(got3, problem3, want):
					bad++
					rec["kind"], rec["got"], rec["problem"], rec["concrete"], rec["how"] = "bad", got3, problem3, conc3, "alone on a server built in this configuration"
				case !zzG03RespAdmissible(got2, problem2, want):
					bad++
					rec["kind"], rec["got"], rec["problem"], rec["concrete"] = "bad", got2, problem2, conc2
					rec["how"] = fmt.Sprintf("history-dependent: on the live server after %d questions and %d reconfigurations; admissible alone", evals, live.reconf)
				default:
					flaky++
					rec["kind"], rec["got"], rec["problem"], rec["concrete"] = "flaky", got, problem, conc
				}
				w.put(rec)
			}
		}
	}

	w.put(map[string]any{"kind": "summary", "leg": "resp", "n": n, "evaluations": evals, "bad": bad, "flaky": flaky, "reconfigurations": live.reconf})
}
